/- C12h helper lemmas: how the primitive world updates act on chains, callback sets and copies. -/
import Tabmodel.Proofs.C12hDefs
import Tabmodel.Proofs.C13xLive
import Tabmodel.Proofs.C13xAdd
set_option linter.unusedSimpArgs false
namespace Tab
open World C13 C13x
namespace C12h

/-! ### reading through the chain -/

theorem getProp_eq_get (w : World) (o : Target) (k : Key) : w.getProp o k = (w.chainOf o).get k := by
  cases o with
  | table t => rfl
  | row r => rfl
  | column t n => simp only [World.getProp, World.chainOf]; cases w.column? t n <;> rfl
  | cell r c => simp only [World.getProp, World.chainOf]; cases w.cell? r c <;> rfl
  | copy n => simp only [World.getProp, World.chainOf]; cases w.copies[n]? <;> rfl

/-! ### the relations -/

theorem _root_.Tab.CSame.refl (w : World) : CSame w w := ⟨fun _ => rfl, fun _ => rfl, rfl, rfl⟩
theorem _root_.Tab.CSame.trans {a b c : World} (h1 : CSame a b) (h2 : CSame b c) : CSame a c :=
  ⟨fun o => (h1.chain o).trans (h2.chain o), fun s => (h1.cbs s).trans (h2.cbs s), h1.ncopies.trans h2.ncopies,
   h1.events.trans h2.events⟩

theorem _root_.Tab.CSame.keeps {w' w : World} (h : CSame w' w) (k : Key) : Keeps k w w' :=
  ⟨fun _ o => by rw [getProp_eq_get, getProp_eq_get, h.chain], h.cbs, h.ncopies,
   fun hn o => by rw [h.chain]; exact hn o⟩

theorem quiet_of_cbs {k : Key} {w w' : World} (h : Quiet k w) (e : ∀ s, w'.cbSet s = w.cbSet s) : Quiet k w' := by
  intro s tm
  simp only [World.cbsAt, e s]
  exact h s tm

theorem _root_.Tab.Keeps.quiet {k : Key} {w w' : World} (h : Keeps k w w') (hq : Quiet k w) : Quiet k w' :=
  quiet_of_cbs hq h.cbs

theorem _root_.Tab.Keeps.refl (k : Key) (w : World) : Keeps k w w := ⟨fun _ _ => rfl, fun _ => rfl, rfl, id⟩
theorem _root_.Tab.Keeps.trans {k : Key} {a b c : World} (h1 : Keeps k a b) (h2 : Keeps k b c) : Keeps k a c :=
  ⟨fun hq o => (h2.val (Keeps.quiet h1 hq) o).trans (h1.val hq o), fun s => (h2.cbs s).trans (h1.cbs s),
   h2.ncopies.trans h1.ncopies, fun h => h2.nodup (h1.nodup h)⟩

/-! ### defaults -/

theorem row_default {w : World} {r : Nat} (h : w.rows.length ≤ r) : w.row r = {} := by
  simp [row_eq, List.getElem?_eq_none h]
theorem table_default {w : World} {t : Nat} (h : w.tables.length ≤ t) : w.table t = {} := by
  simp [table_eq, List.getElem?_eq_none h]

/-! ### `modTable` / `modRow` / `modCell` / `modColumn` / copies that keep chains -/

theorem chainOf_modTable_of (w : World) (t : Nat) (f : Table → Table)
    (h1 : ∀ tb, (f tb).props = tb.props)
    (h2 : ∀ (tb : Table) (n : Nat),
      (((f tb).columns[n]?).map Column.props).getD [] = ((tb.columns[n]?).map Column.props).getD [])
    (o : Target) : (w.modTable t f).chainOf o = w.chainOf o := by
  cases o <;> simp only [World.chainOf, World.column?, table_modTable, row_modTable, cell?_modTable, copies_modTable]
  case table t' => split <;> first | rfl | exact h1 _
  case column t' n => split <;> first | rfl | exact h2 _ _

theorem chainOf_modRow_of (w : World) (r : Nat) (f : Row → Row)
    (h1 : ∀ rw, (f rw).props = rw.props) (h3 : ∀ rw, (f rw).cells = rw.cells) (o : Target) :
    (w.modRow r f).chainOf o = w.chainOf o := by
  have hcell : ∀ r' c, (w.modRow r f).cell? r' c = w.cell? r' c := cell?_modRow_of w r f h3
  cases o <;> simp only [World.chainOf, row_modRow, table_modRow, column?_modRow, copies_modRow, hcell]
  case row r' => split <;> first | rfl | exact h1 _

theorem chainOf_modCell_of (w : World) (r c : Nat) (f : Cell → Cell) (h : ∀ ce, (f ce).props = ce.props)
    (o : Target) : (w.modCell r c f).chainOf o = w.chainOf o := by
  cases o <;> simp only [World.chainOf, cell?_modCell, table_modCell, copies_modCell]
  case cell r' c' =>
    split
    · cases w.cell? r' c' <;> simp [h]
    · rfl
  case row r' => simp only [World.modCell, row_modRow]; split <;> rfl
  all_goals rfl

theorem chainOf_modColumn_of (w : World) (t n : Nat) (f : Column → Column) (h : ∀ c, (f c).props = c.props)
    (o : Target) : (w.modColumn t n f).chainOf o = w.chainOf o := by
  unfold World.modColumn
  refine chainOf_modTable_of w t _ (by intro _; rfl) ?_ o
  intro tb m
  simp only [List.getElem?_modify]
  split
  · cases tb.columns[m]? <;> simp [h]
  · simp

theorem chainOf_modCopy_of (w : World) (n : Nat) (f : Cell → Cell) (h : ∀ ce, (f ce).props = ce.props)
    (o : Target) : ({ w with copies := w.copies.modify n f } : World).chainOf o = w.chainOf o := by
  cases o <;> simp only [World.chainOf]
  case copy n' =>
    simp only [List.getElem?_modify]
    split
    · cases w.copies[n']? <;> simp [h]
    · simp
  all_goals rfl

theorem csame_modTable_fields (w : World) (t : Nat) (f : Table → Table)
    (h0 : ∀ tb, (f tb).props = tb.props) (hc : ∀ tb, (f tb).columns = tb.columns)
    (h1 : ∀ tb, (f tb).selfCbs = tb.selfCbs) (h2 : ∀ tb, (f tb).cellCbs = tb.cellCbs)
    (h3 : ∀ tb, (f tb).rowCbs = tb.rowCbs) : CSame (w.modTable t f) w :=
  ⟨chainOf_modTable_of w t f h0 (by intro tb n; rw [hc]),
   cbSet_modTable_of w t f h1 h2 h3 (by intro tb n; rw [hc]) (by intro tb n; rw [hc]), rfl, rfl⟩

theorem csame_modRow_fields (w : World) (r : Nat) (f : Row → Row)
    (h0 : ∀ rw, (f rw).props = rw.props) (hc : ∀ rw, (f rw).cells = rw.cells)
    (h1 : ∀ rw, (f rw).selfCbs = rw.selfCbs) (h2 : ∀ rw, (f rw).cellCbs = rw.cellCbs) :
    CSame (w.modRow r f) w :=
  ⟨chainOf_modRow_of w r f h0 hc, cbSet_modRow_of w r f h1 h2 hc, rfl, rfl⟩

theorem csame_modCell_fields (w : World) (r c : Nat) (f : Cell → Cell)
    (h0 : ∀ ce, (f ce).props = ce.props) (h1 : ∀ ce, (f ce).cbs = ce.cbs) : CSame (w.modCell r c f) w :=
  ⟨chainOf_modCell_of w r c f h0, cbSet_modCell_props w r c f h1, rfl, rfl⟩

/-! ### growing the column list -/

theorem resize_props (tb : Table) (n : Nat) : (resizeColumnsAtLeast tb n).props = tb.props := by
  unfold resizeColumnsAtLeast; split <;> rfl

theorem getElem?_append_replicate_props (cs : List Column) (k n : Nat) :
    (((cs ++ List.replicate k ({} : Column))[n]?).map Column.props).getD [] = ((cs[n]?).map Column.props).getD [] := by
  by_cases h : n < cs.length
  · simp [List.getElem?_append_left h]
  · have h' : cs.length ≤ n := Nat.le_of_not_lt h
    rw [List.getElem?_append_right h', List.getElem?_eq_none h']
    by_cases h2 : n - cs.length < k
    · simp [List.getElem?_replicate, h2]
    · simp [List.getElem?_replicate, h2]

theorem resize_col_props (tb : Table) (m n : Nat) :
    ((((resizeColumnsAtLeast tb m).columns)[n]?).map Column.props).getD [] = ((tb.columns[n]?).map Column.props).getD [] := by
  unfold resizeColumnsAtLeast
  split
  · rfl
  · exact getElem?_append_replicate_props _ _ _

/-- growing the table never disturbs a column's chain (nor anything else's) -/
theorem csame_resize (w : World) (t m : Nat) : CSame (w.modTable t (fun tb => resizeColumnsAtLeast tb m)) w :=
  ⟨chainOf_modTable_of w t _ (fun tb => resize_props tb m) (fun tb n => resize_col_props tb m n),
   cbSet_resize w t m, rfl, rfl⟩

/-! ### events, items, error containers -/

theorem chainOf_events (w : World) (es : List Event) (o : Target) :
    ({ w with events := es } : World).chainOf o = w.chainOf o := by cases o <;> rfl

theorem csame_items (w : World) (its : List Item) : CSame ({ w with items := its } : World) w :=
  ⟨fun o => by cases o <;> rfl, fun s => by cases s <;> rfl, rfl, rfl⟩

theorem csame_addErrTo (w : World) (tk : Taker) (e : Nat) : CSame (w.addErrTo tk e) w := by
  unfold World.addErrTo
  cases tk with
  | drop => exact CSame.refl w
  | table t =>
    exact csame_modTable_fields w t _ (fun _ => rfl) (fun _ => rfl) (fun _ => rfl) (fun _ => rfl) (fun _ => rfl)
  | rowOwn r =>
    refine csame_modRow_fields w r _ ?_ ?_ ?_ ?_ <;> (intro rw; split <;> rfl)
  | rowLazy r =>
    dsimp only
    split
    · exact csame_modRow_fields w r _ (fun _ => rfl) (fun _ => rfl) (fun _ => rfl) (fun _ => rfl)
    · exact csame_modRow_fields w r _ (fun _ => rfl) (fun _ => rfl) (fun _ => rfl) (fun _ => rfl)
    · exact csame_modTable_fields w _ _ (fun _ => rfl) (fun _ => rfl) (fun _ => rfl) (fun _ => rfl) (fun _ => rfl)

/-! ### new tables and rows -/

theorem table_append (w : World) (tb : Table) (t : Nat) :
    ({ w with tables := w.tables ++ [tb] } : World).table t = if t = w.tables.length then tb else w.table t := by
  simp only [table_eq, List.getElem?_append]
  by_cases h : t < w.tables.length
  · have : t ≠ w.tables.length := by omega
    simp [h, this]
  · by_cases h2 : t = w.tables.length
    · subst h2; simp
    · have : w.tables.length ≤ t := by omega
      have h3 : t - w.tables.length ≠ 0 := by omega
      simp [h, h2, List.getElem?_eq_none this, h3]

theorem row_append (w : World) (rw : Row) (r : Nat) :
    ({ w with rows := w.rows ++ [rw] } : World).row r = if r = w.rows.length then rw else w.row r := by
  simp only [row_eq, List.getElem?_append]
  by_cases h : r < w.rows.length
  · have : r ≠ w.rows.length := by omega
    simp [h, this]
  · by_cases h2 : r = w.rows.length
    · subst h2; simp
    · have : w.rows.length ≤ r := by omega
      have h3 : r - w.rows.length ≠ 0 := by omega
      simp [h, h2, List.getElem?_eq_none this, h3]

theorem csame_newTable (w : World) : CSame w.newTable.1 w := by
  have ht : ∀ t, (w.newTable.1).table t = w.table t := by
    intro t
    simp only [World.newTable, table_append]
    split
    · rename_i h; rw [table_default (Nat.le_of_eq h.symm)]
    · rfl
  refine ⟨fun o => ?_, fun s => ?_, rfl, rfl⟩
  · cases o <;> simp only [World.chainOf, World.column?, ht] <;> rfl
  · cases s <;> simp only [World.cbSet, World.column?, ht] <;> rfl

/-- a fresh row with no properties, no callbacks and no cells -/
theorem csame_newRow (w : World) (rw : Row) (h0 : rw.props = []) (h1 : rw.selfCbs = {}) (h2 : rw.cellCbs = {})
    (h3 : rw.cells.getD [] = []) : CSame (w.newRow rw).1 w := by
  have hr : ∀ r, ((w.newRow rw).1).row r = if r = w.rows.length then rw else w.row r := fun r => row_append w rw r
  have hd := row_default (w := w) (Nat.le_refl _)
  have hcells : ∀ r, ((w.newRow rw).1).rowCells r = w.rowCells r := by
    intro r
    simp only [World.rowCells, hr]
    split
    · rename_i h; subst h; rw [hd, h3]; rfl
    · rfl
  refine ⟨fun o => ?_, fun s => ?_, rfl, rfl⟩
  · cases o <;> simp only [World.chainOf, World.cell?, hcells]
    case row r =>
      rw [hr]; split
      · rename_i h; subst h; rw [hd, h0]
      · rfl
    all_goals rfl
  · cases s <;> simp only [World.cbSet, World.cell?, hcells]
    case rowSelf r =>
      rw [hr]; split
      · rename_i h; subst h; rw [hd, h1]
      · rfl
    case rowCell r =>
      rw [hr]; split
      · rename_i h; subst h; rw [hd, h2]
      · rfl
    all_goals rfl

/-! ### operations addressed to an owner that does not exist are no-ops -/

theorem modify_eq_self_of_le {α : Type} (l : List α) (i : Nat) (f : α → α) (h : l.length ≤ i) : l.modify i f = l := by
  apply List.ext_getElem?
  intro j
  rw [List.getElem?_modify]
  split
  · rename_i e; subst e; simp [List.getElem?_eq_none h]
  · simp

theorem modify_eq_self_of_fix {α : Type} (l : List α) (i : Nat) (f : α → α) (h : ∀ a, l[i]? = some a → f a = a) :
    l.modify i f = l := by
  apply List.ext_getElem?
  intro j
  rw [List.getElem?_modify]
  split
  · rename_i e; subst e
    cases hh : l[i]? with
    | none => rfl
    | some a => simp [h a hh]
  · simp

theorem modTable_noobj (w : World) (t : Nat) (f : Table → Table) (h : w.tables.length ≤ t) : w.modTable t f = w := by
  unfold World.modTable; rw [modify_eq_self_of_le _ _ _ h]

theorem modRow_noobj (w : World) (r : Nat) (f : Row → Row) (h : w.rows.length ≤ r) : w.modRow r f = w := by
  unfold World.modRow; rw [modify_eq_self_of_le _ _ _ h]

theorem modColumn_noobj (w : World) (t n : Nat) (f : Column → Column) (h : ¬ w.hasObj (.column t n)) :
    w.modColumn t n f = w := by
  unfold World.modColumn World.modTable
  rw [modify_eq_self_of_fix]
  intro tb htb
  have ht : t < w.tables.length := (List.getElem?_eq_some_iff.mp htb).1
  have e : w.table t = tb := by rw [table_eq, htb]; rfl
  have hn : tb.columns.length ≤ n := by
    rw [← e]
    apply Nat.le_of_not_lt
    intro hn; exact h ⟨ht, hn⟩
  rw [modify_eq_self_of_le _ _ _ hn]

theorem modCell_noobj (w : World) (r c : Nat) (f : Cell → Cell) (h : ¬ w.hasObj (.cell r c)) :
    w.modCell r c f = w := by
  unfold World.modCell World.modRow
  rw [modify_eq_self_of_fix]
  intro rw hrw
  have e : w.row r = rw := by rw [row_eq, hrw]; rfl
  have hc : w.cell? r c = none := by
    cases hh : w.cell? r c with
    | none => rfl
    | some ce => exact absurd (show w.hasObj (.cell r c) by simp [World.hasObj, hh]) h
  cases hcs : rw.cells with
  | none => cases rw; simp only at hcs; subst hcs; rfl
  | some cs =>
    have hlen : cs.length ≤ c := by
      simp only [World.cell?, World.rowCells, e, hcs, Option.getD_some] at hc
      exact List.getElem?_eq_none_iff.mp hc
    cases rw; simp only at hcs; subst hcs
    simp only [Option.map_some, modify_eq_self_of_le _ _ _ hlen]

theorem modCopy_noobj (w : World) (n : Nat) (f : Cell → Cell) (h : w.copies.length ≤ n) :
    ({ w with copies := w.copies.modify n f } : World) = w := by
  rw [modify_eq_self_of_le _ _ _ h]

theorem setProp_noobj (w : World) (o : Target) (k : Key) (v : Option Val) (h : ¬ w.hasObj o) :
    w.setProp o k v = w := by
  cases o with
  | table t => exact modTable_noobj w t _ (Nat.le_of_not_lt h)
  | column t n => exact modColumn_noobj w t n _ h
  | row r => exact modRow_noobj w r _ (Nat.le_of_not_lt h)
  | cell r c => exact modCell_noobj w r c _ h
  | copy n => exact modCopy_noobj w n _ (Nat.le_of_not_lt h)

theorem registerCb_noobj {w w' : World} {o : Target} {tm : Time} {tg : CbTarget} {cb : Cb}
    (h : ¬ w.hasObj o) (e : registerCb w o tm tg cb = some w') : w' = w := by
  cases o with
  | table t =>
    cases tg <;> simp only [registerCb, Option.some.injEq] at e <;> subst e <;>
      exact modTable_noobj w t _ (Nat.le_of_not_lt h)
  | column t n =>
    cases tg <;> simp only [registerCb, Option.some.injEq, reduceCtorEq] at e <;> subst e <;>
      exact modColumn_noobj w t n _ h
  | row r =>
    cases tg <;> simp only [registerCb, Option.some.injEq] at e <;> subst e <;>
      exact modRow_noobj w r _ (Nat.le_of_not_lt h)
  | cell r c =>
    cases tg <;> simp only [registerCb, Option.some.injEq, reduceCtorEq] at e <;> subst e <;>
      exact modCell_noobj w r c _ h
  | copy n =>
    cases tg <;> simp only [registerCb, Option.some.injEq, reduceCtorEq] at e <;> subst e <;>
      exact modCopy_noobj w n _ (Nat.le_of_not_lt h)

end C12h
end Tab
