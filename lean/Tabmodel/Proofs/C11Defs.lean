/-
  C11 — spec definitions shared by the helper lemmas (`Proofs/C11.lean`) and the property
  theorems (`Props/C11.lean`).  They live here only because the helper lemmas need them;
  `Props/C11.lean` restates each of them by `rfl`.
-/
import Tabmodel.Model.Errors
import Tabmodel.Model.World
namespace Tab

/-! ### container level -/

/-- One operation on a stand-alone container: `inl e` is `AddError(e)`, `inr l` is `AddErrorList(l)`. -/
abbrev ECOp := Sum (Option Nat) (List (Option Nat))

def EC.applyOp (c : EC) : ECOp → EC
  | .inl e => c.addError e
  | .inr l => c.addErrorList l

/-- the non-nil arguments of an operation, in order -/
def EC.opArgs : ECOp → List Nat
  | .inl e => e.toList
  | .inr l => l.filterMap id

namespace World

/-! ### error mass -/

/-- occurrences of `e` in a row's *own* container (0 when the row has none or shares the table's) -/
def ownCount (e : Nat) (rw : Row) : Nat :=
  match rw.ec with
  | .own es => es.count e
  | _ => 0

/-- `mass w e`: the number of occurrences of error id `e` in all table lists plus all own row
    containers of the world. -/
def mass (w : World) (e : Nat) : Nat :=
  (w.tables.map (fun tb => tb.errs.count e)).sum + (w.rows.map (ownCount e)).sum

/-- A taker is live when an `AddError` through it is stored somewhere: a valid table; a row
    that owns a container; or a valid row itself (`Row.AddError` allocates on demand), whose
    container, if it is a table's, is that of a valid table. -/
def live (w : World) : Taker → Prop
  | .drop => False
  | .table t => t < w.tables.length
  | .rowOwn r => match (w.row r).ec with | .own _ => True | _ => False
  | .rowLazy r => r < w.rows.length ∧
      match (w.row r).ec with | .table t => t < w.tables.length | _ => True

instance (w : World) (tk : Taker) : Decidable (w.live tk) := by
  cases tk <;> simp only [live] <;> (try split) <;> infer_instance

/-- a row that has not been attached: no container yet, or its own -/
def unattached (w : World) (r : Nat) : Prop :=
  (w.row r).ec = .none ∨ ∃ es, (w.row r).ec = .own es

instance (w : World) (r : Nat) : Decidable (w.unattached r) := by
  unfold unattached
  cases h : (w.row r).ec with
  | none => exact isTrue (Or.inl rfl)
  | own es => exact isTrue (Or.inr ⟨es, rfl⟩)
  | table t => exact isFalse (by simp)

/-! ### callbacks -/

/-- the error a callback returns when invoked on `tgt` (`none`: returns nil) -/
def raises (tgt : Target) : Cb → Option Nat
  | .log _ => none
  | .setProp _ _ _ => none
  | .fail _ e => some e
  | .dimSetter => match tgt with | .cell _ _ => none | _ => some errTTNotCell
  | .widthSetter => match tgt with | .cell _ _ => none | _ => some errMDNotCell

/-- how many callbacks of the list return error `e` on `tgt` -/
def raiseCount (tgt : Target) (e : Nat) (cbs : List Cb) : Nat :=
  (cbs.filter (fun cb => raises tgt cb == some e)).length

def isLog : Cb → Bool
  | .log _ => true
  | _ => false

/-- all add-time cell callbacks of a table and of its columns only log -/
def quietT (tb : Table) : Bool :=
  tb.cellCbs.add.all isLog && tb.columns.all (fun c => c.cellCbs.add.all isLog)

/-- every add-time callback that `addRow w t r` can reach only logs (in particular: there are none) -/
def addQuiet (w : World) (t r : Nat) : Bool :=
  ((w.row r).selfCbs.add).all isLog && ((w.table t).rowCbs.add).all isLog && w.tables.all quietT

/-! ### render traversal with a liveness monitor

  `Chk` pairs the world with the proposition "every `invoke` so far was given a live taker".
  `invokeC` is `invoke` on the first component; the `…C` functions below are the model's
  render traversal with `invoke` replaced by `invokeC` (their first components are proved equal
  to the model functions in `Props/C11.lean`, `c11_monitor_faithful`). -/

abbrev Chk := World × Prop

def invokeC (dw : Measure) (c : Chk) (cbs : World → List Cb) (tgt : Target) (tk : World → Taker) : Chk :=
  (invoke dw c.1 (cbs c.1) tgt (tk c.1), c.2 ∧ live c.1 (tk c.1))

/-- The eight `invoke` calls `renderCells` makes for cell `i` of row `r`, in order: the callback
    list and the taker, each as a function of the world at the time of the call (`col` is the
    cell's column, computed once before the first call). -/
def cellCalls (t r i : Nat) (col : Option (Nat × Nat)) :
    List ((World → List Cb) × (World → Taker)) :=
  [ (fun w => (w.table t).cellCbs.at .pre, fun _ => .table t),
    (fun w => colCellCbs w col .pre, fun w => rowECTaker w r),
    (fun w => (w.row r).cellCbs.at .pre, fun _ => .table t),
    (fun w => (w.table t).cellCbs.at .render, fun _ => .table t),
    (fun w => ((w.cell? r i).map (·.cbs.at .render)).getD [], fun _ => .table t),
    (fun w => (w.row r).cellCbs.at .post, fun _ => .table t),
    (fun w => colCellCbs w col .post, fun w => rowECTaker w r),
    (fun w => (w.table t).cellCbs.at .post, fun _ => .table t) ]

def renderCellC (dw : Measure) (t r i : Nat) (c : Chk) : Chk :=
  (cellCalls t r i (columnOf c.1 r i)).foldl (fun c d => invokeC dw c d.1 (.cell r i) d.2) c

def renderCellsC (dw : Measure) (t r : Nat) : Nat → Nat → Chk → Chk
  | 0, _, c => c
  | n + 1, i, c => renderCellsC dw t r n (i + 1) (renderCellC dw t r i c)

def renderRowC (dw : Measure) (t : Nat) (c : Chk) (r : Nat) : Chk :=
  let c := invokeC dw c (fun w => (w.row r).selfCbs.at .pre) (.row r) (fun _ => .table t)
  let c := renderCellsC dw t r (c.1.rowCells r).length 0 c
  invokeC dw c (fun w => (w.row r).selfCbs.at .post) (.row r) (fun _ => .table t)

def renderColumnsC (dw : Measure) (t : Nat) (tm : Time) : Nat → Nat → Chk → Chk
  | 0, _, c => c
  | n + 1, i, c =>
    let c := invokeC dw c (fun w => ((w.column? t i).map (·.selfCbs.at tm)).getD [])
      (.column t i) (fun _ => .table t)
    renderColumnsC dw t tm n (i + 1) c

def renderHeaderC (dw : Measure) (t : Nat) (c : Chk) : Chk :=
  match (c.1.table t).header with
  | some hr => renderRowC dw t c hr
  | none => c

def invokeRenderCallbacksC (dw : Measure) (c : Chk) (t : Nat) : Chk :=
  let c := invokeC dw c (fun w => (w.table t).selfCbs.at .pre) (.table t) (fun _ => .table t)
  let ncol := (c.1.table t).columns.length
  let c := renderColumnsC dw t .pre ncol 0 c
  let c := renderHeaderC dw t c
  let c := (c.1.table t).rows.foldl (renderRowC dw t) c
  let c := renderColumnsC dw t .post ncol 0 c
  invokeC dw c (fun w => (w.table t).selfCbs.at .post) (.table t) (fun _ => .table t)

/-- all rows of table `t` (and its header row) share the table's container, and `t` exists -/
def attachedAll (w : World) (t : Nat) : Prop :=
  t < w.tables.length ∧
  (∀ r ∈ (w.table t).rows, (w.row r).ec = .table t) ∧
  (∀ hr ∈ (w.table t).header, (w.row hr).ec = .table t)

instance (w : World) (t : Nat) : Decidable (w.attachedAll t) := by
  unfold attachedAll; infer_instance

end World
end Tab
