/-
  C03m helpers, part 7: the history of `Proofs/E2EcbExample.lean` re-evaluated with the non-additive
  measure `toyDw` and the built-in heavy decoration (for the end-to-end non-vacuity examples).
-/
import Tabmodel.Proofs.E2EcbExample
import Tabmodel.Proofs.C03mExample
import Tabmodel.Proofs.C03mHist
namespace Tab
open World hiding CellOK

instance (e s : Nat → Bool) (w : World) (t : Nat) : Decidable (w.TextsSafe (Junction.cps e s) t) := by
  unfold World.TextsSafe; infer_instance

instance (jp jn : List (Nat × Nat)) (w : World) (t : Nat) :
    Decidable (w.TextsSafe (Junction.clusters jp jn) t) := by
  unfold Junction.clusters; infer_instance

def toyX : Ext := ⟨toyDw, c07JsQ⟩

namespace C03mHistExample

theorem hv : Valid cbOps = true := by decide +kernel
theorem ht : e2eHeavy.core < (run toyX.dw cbOps).tables.length := by decide +kernel
theorem hU : (run toyX.dw cbOps).UserKeysOnly e2eHeavy.core := by decide +kernel
theorem hN : Needs (run toyX.dw cbOps) e2eHeavy := by decide +kernel
theorem ha : AlignOK ((invokeRenderCallbacks toyX.dw (run toyX.dw cbOps) e2eHeavy.core).view e2eHeavy.core) :=
  alignOK_of_alignOKb _ (by decide +kernel)
theorem hn : 1 ≤ ((run toyX.dw cbOps).table e2eHeavy.core).nColumns := by decide +kernel
theorem hF : TableFits toyX.dw (run toyX.dw cbOps) e2eHeavy.core := by decide +kernel
theorem hD : (run toyX.dw cbOps).NoDeclaredWidth e2eHeavy.core := by decide +kernel
theorem hS : (run toyX.dw cbOps).TextsSafe toyJ e2eHeavy.core := by decide +kernel
theorem hd : e2eHeavy.decor ∈ Generated.builtins.map (·.2) := by decide +kernel

theorem hcw : ((invokeRenderCallbacks toyX.dw (run toyX.dw cbOps) e2eHeavy.core).view e2eHeavy.core).colWidths
    = [1, 1] := by decide +kernel

end C03mHistExample
end Tab
