/-
  The render-time traversal (`invokeRenderCallbacks`) under `LogOnly`:
  * every `StepInv` property that pins `erase` is kept by the whole pass (`irc_inv`);
  * if a measuring callback sits in the table's cell/render list, every cell of the header and
    of every row is measured afterwards (`irc_meas`).
-/
import Tabmodel.Proofs.StableStep
namespace Tab

theorem CbSet.okSelf_at {s : CbSet} (h : s.okSelf = true) {tm : Time} (htm : tm ≠ .add) :
    (s.at tm).all Cb.okSelf = true := by
  unfold CbSet.okSelf at h
  simp only [Bool.and_eq_true] at h
  cases tm with
  | add => exact absurd rfl htm
  | pre => exact h.1.1
  | render => exact h.1.2
  | post => exact h.2

theorem CbSet.okCell_at {s : CbSet} (h : s.okCell = true) {tm : Time} (htm : tm ≠ .add) :
    (s.at tm).all Cb.okCell = true := by
  unfold CbSet.okCell at h
  simp only [Bool.and_eq_true] at h
  cases tm with
  | add => exact absurd rfl htm
  | pre => exact h.1.1
  | render => exact h.1.2
  | post => exact h.2

namespace World

/-- run a callback list that is read from the current world -/
theorem invoke_cell_read {dw : Measure} {P : World → Prop} (hP : StepInv dw P) {w0 : World}
    (hE : ∀ w, P w → w.erase = w0.erase) (f : World → List Cb) (hf : ∀ w, f w.erase = f w)
    (hok : (f w0).all Cb.okCell = true) (r c : Nat) (tk : World → Taker) (w : World) (h : P w) :
    P (invoke dw w (f w) (.cell r c) (tk w)) := by
  have : f w = f w0 := of_erase_eq f hf (hE w h)
  rw [this]
  exact invoke_cell hP (f w0) r c (tk w) hok w h

theorem invoke_self_read {dw : Measure} {P : World → Prop} (hP : StepInv dw P) {w0 : World}
    (hE : ∀ w, P w → w.erase = w0.erase) (f : World → List Cb) (hf : ∀ w, f w.erase = f w)
    (hok : (f w0).all Cb.okSelf = true) (tgt : Target) (tk : Taker) (w : World) (h : P w) :
    P (invoke dw w (f w) tgt tk) := by
  have : f w = f w0 := of_erase_eq f hf (hE w h)
  rw [this]
  exact invoke_self hP (f w0) tgt tk hok w h

/-! ### one cell -/

def cellPre3 (dw : Measure) (t r i : Nat) (w : World) : World :=
  let col := columnOf w r i
  let w := invoke dw w ((w.table t).cellCbs.at .pre) (.cell r i) (.table t)
  let w := invoke dw w (colCellCbs w col .pre) (.cell r i) (rowECTaker w r)
  invoke dw w ((w.row r).cellCbs.at .pre) (.cell r i) (.table t)

def cellPre (dw : Measure) (t r i : Nat) (w : World) : World :=
  let w := cellPre3 dw t r i w
  invoke dw w ((w.table t).cellCbs.at .render) (.cell r i) (.table t)

def cellPost (dw : Measure) (t r i : Nat) (col : Option (Nat × Nat)) (w : World) : World :=
  let w := invoke dw w (((w.cell? r i).map (·.cbs.at .render)).getD []) (.cell r i) (.table t)
  let w := invoke dw w ((w.row r).cellCbs.at .post) (.cell r i) (.table t)
  let w := invoke dw w (colCellCbs w col .post) (.cell r i) (rowECTaker w r)
  invoke dw w ((w.table t).cellCbs.at .post) (.cell r i) (.table t)

theorem renderCells_succ (dw : Measure) (t r n i : Nat) (w : World) :
    renderCells dw t r (n + 1) i w =
      renderCells dw t r n (i + 1) (cellPost dw t r i (columnOf w r i) (cellPre dw t r i w)) := rfl

theorem rd_cellRender (r i : Nat) (w : World) :
    ((w.erase.cell? r i).map (·.cbs.at .render)).getD [] = ((w.cell? r i).map (·.cbs.at .render)).getD [] := by
  rw [erase_cell?]; cases w.cell? r i <;> rfl

section
variable {dw : Measure} {P : World → Prop} (hP : StepInv dw P) {w0 : World}
  (hE : ∀ w, P w → w.erase = w0.erase) {t r : Nat}
  (hT : (w0.table t).cellCbs.okCell = true) (hR : RowLogOnly w0 r)
include hP hE hT hR

theorem cellPre3_inv (i : Nat) (hi : i < (w0.rowCells r).length) (w : World) (h : P w) :
    P (cellPre3 dw t r i w) := by
  have hcol : columnOf w r i = columnOf w0 r i := of_erase_eq (fun w => columnOf w r i) (rd_columnOf r i) (hE w h)
  have h1 := invoke_cell_read hP hE (fun w => (w.table t).cellCbs.at .pre) (fun _ => rfl)
    (CbSet.okCell_at hT (by decide : Time.pre ≠ .add)) r i (fun _ => .table t) w h
  have h2 := invoke_cell_read hP hE (fun w' => colCellCbs w' (columnOf w r i) .pre) (fun _ => rfl)
    (by rw [hcol]; exact (hR.2.2.2 i hi).1) r i (fun w => rowECTaker w r) _ h1
  exact invoke_cell_read hP hE (fun w => (w.row r).cellCbs.at .pre)
    (fun w => by show ((w.erase.row r).cellCbs).at .pre = _; rw [rd_rowCell])
    (CbSet.okCell_at hR.2.1 (by decide : Time.pre ≠ .add)) r i (fun _ => .table t) _ h2

theorem cellPre_inv (i : Nat) (hi : i < (w0.rowCells r).length) (w : World) (h : P w) :
    P (cellPre dw t r i w) :=
  invoke_cell_read hP hE (fun w => (w.table t).cellCbs.at .render) (fun _ => rfl)
    (CbSet.okCell_at hT (by decide : Time.render ≠ .add)) r i (fun _ => .table t) _ (cellPre3_inv hP hE hT hR i hi w h)

theorem cellPost_inv (i : Nat) (hi : i < (w0.rowCells r).length) (col : Option (Nat × Nat))
    (hcol : col = columnOf w0 r i) (w : World) (h : P w) : P (cellPost dw t r i col w) := by
  have hcells : (((w0.cell? r i).map (·.cbs.at .render)).getD []).all Cb.okCell = true := by
    cases hc : w0.cell? r i with
    | none => rfl
    | some ce =>
      have hmem : ce ∈ w0.rowCells r := List.mem_of_getElem? hc
      exact CbSet.okCell_at (hR.2.2.1 ce hmem) (by decide : Time.render ≠ .add)
  have h1 := invoke_cell_read hP hE (fun w => ((w.cell? r i).map (·.cbs.at .render)).getD [])
    (rd_cellRender r i) hcells r i (fun _ => .table t) w h
  have h2 := invoke_cell_read hP hE (fun w => (w.row r).cellCbs.at .post)
    (fun w => by show ((w.erase.row r).cellCbs).at .post = _; rw [rd_rowCell])
    (CbSet.okCell_at hR.2.1 (by decide : Time.post ≠ .add)) r i (fun _ => .table t) _ h1
  have h3 := invoke_cell_read hP hE (fun w' => colCellCbs w' col .post) (fun _ => rfl)
    (by rw [hcol]; exact (hR.2.2.2 i hi).2) r i (fun w => rowECTaker w r) _ h2
  exact invoke_cell_read hP hE (fun w => (w.table t).cellCbs.at .post) (fun _ => rfl)
    (CbSet.okCell_at hT (by decide : Time.post ≠ .add)) r i (fun _ => .table t) _ h3

theorem renderCells_inv : ∀ (n i : Nat) (w : World), i + n ≤ (w0.rowCells r).length → P w →
    P (renderCells dw t r n i w)
  | 0, _, _, _, h => h
  | n + 1, i, w, hi, h => by
    rw [renderCells_succ]
    have hcol : columnOf w r i = columnOf w0 r i := of_erase_eq (fun w => columnOf w r i) (rd_columnOf r i) (hE w h)
    exact renderCells_inv n (i + 1) _ (by omega)
      (cellPost_inv hP hE hT hR i (by omega) _ hcol _ (cellPre_inv hP hE hT hR i (by omega) w h))

theorem renderRow_inv (w : World) (h : P w) : P (renderRow dw t w r) := by
  unfold renderRow
  have h1 := invoke_self_read hP hE (fun w => (w.row r).selfCbs.at .pre)
    (fun w => by show ((w.erase.row r).selfCbs).at .pre = _; rw [rd_rowSelf])
    (CbSet.okSelf_at hR.1 (by decide : Time.pre ≠ .add)) (.row r) (.table t) w h
  have hlen := of_erase_eq (fun w => (w.rowCells r).length) (rd_rowCellsLen r) (hE _ h1)
  have h2 := renderCells_inv hP hE hT hR _ 0 _ (Nat.le_of_eq (by rw [Nat.zero_add])) h1
  rw [← hlen] at h2
  exact invoke_self_read hP hE (fun w => (w.row r).selfCbs.at .post)
    (fun w => by show ((w.erase.row r).selfCbs).at .post = _; rw [rd_rowSelf])
    (CbSet.okSelf_at hR.1 (by decide : Time.post ≠ .add)) (.row r) (.table t) _ h2

end

/-! ### rows, columns, the whole pass -/

section
variable {dw : Measure} {P : World → Prop} (hP : StepInv dw P) {w0 : World}
  (hE : ∀ w, P w → w.erase = w0.erase) {t : Nat}
include hP hE

theorem rows_inv (hT : (w0.table t).cellCbs.okCell = true) :
    ∀ (rs : List Nat), (∀ r ∈ rs, RowLogOnly w0 r) → ∀ w, P w → P (rs.foldl (renderRow dw t) w)
  | [], _, _, h => h
  | r :: rs, hrs, w, h => by
    rw [List.foldl_cons]
    exact rows_inv hT rs (fun r' hr' => hrs r' (List.mem_cons_of_mem _ hr')) _
      (renderRow_inv hP hE hT (hrs r (List.mem_cons_self ..)) w h)

theorem renderColumns_inv (hC : ∀ c ∈ (w0.table t).columns, c.selfCbs.okSelf = true) {tm : Time}
    (htm : tm ≠ .add) : ∀ (n i : Nat) (w : World), P w → P (renderColumns dw t tm n i w)
  | 0, _, _, h => h
  | n + 1, i, w, h => by
    unfold renderColumns
    apply renderColumns_inv hC htm n (i + 1)
    apply invoke_self_read hP hE (fun w => ((w.column? t i).map (·.selfCbs.at tm)).getD []) (fun _ => rfl) _ _ _ w h
    show (((w0.table t).columns[i]?.map (·.selfCbs.at tm)).getD []).all Cb.okSelf = true
    cases hc : (w0.table t).columns[i]? with
    | none => rfl
    | some c => exact CbSet.okSelf_at (hC c (List.mem_of_getElem? hc)) htm

end

def ircHead (dw : Measure) (t : Nat) (w : World) : World :=
  match (w.table t).header with
  | some hr => renderRow dw t w hr
  | none => w

def ircRows (dw : Measure) (t : Nat) (w : World) : World := (w.table t).rows.foldl (renderRow dw t) w

def ircTail (dw : Measure) (t ncol : Nat) (w : World) : World :=
  let w5 := renderColumns dw t .post ncol 0 w
  invoke dw w5 ((w5.table t).selfCbs.at .post) (.table t) (.table t)

def ircInit (dw : Measure) (t : Nat) (w : World) : World :=
  let w1 := invoke dw w ((w.table t).selfCbs.at .pre) (.table t) (.table t)
  renderColumns dw t .pre (w1.table t).columns.length 0 w1

def ircNcol (dw : Measure) (t : Nat) (w : World) : Nat :=
  ((invoke dw w ((w.table t).selfCbs.at .pre) (.table t) (.table t)).table t).columns.length

theorem irc_eq (dw : Measure) (w : World) (t : Nat) :
    invokeRenderCallbacks dw w t =
      ircTail dw t (ircNcol dw t w) (ircRows dw t (ircHead dw t (ircInit dw t w))) := rfl

section
variable {dw : Measure} {P : World → Prop} (hP : StepInv dw P) {w0 : World}
  (hE : ∀ w, P w → w.erase = w0.erase) {t : Nat} (hL : LogOnly w0 t)
include hP hE hL

theorem ircHead_inv (w : World) (h : P w) : P (ircHead dw t w) := by
  unfold ircHead
  have ht : w.table t = w0.table t := of_erase_eq (fun w => w.table t) (rd_table t) (hE w h)
  rw [ht]
  cases hh : (w0.table t).header with
  | none => exact h
  | some hr =>
    exact renderRow_inv hP hE hL.2.1 (hL.2.2.2 hr (by simp [hh])) w h

theorem ircRows_inv (w : World) (h : P w) : P (ircRows dw t w) := by
  unfold ircRows
  have ht : w.table t = w0.table t := of_erase_eq (fun w => w.table t) (rd_table t) (hE w h)
  rw [ht]
  exact rows_inv hP hE hL.2.1 _ (fun r hr => hL.2.2.2 r (by simp [hr])) w h

theorem ircInit_inv (w : World) (h : P w) : P (ircInit dw t w) := by
  unfold ircInit
  have h1 := invoke_self_read hP hE (fun w => (w.table t).selfCbs.at .pre) (fun _ => rfl)
    (CbSet.okSelf_at hL.1 (by decide : Time.pre ≠ .add)) (.table t) (.table t) w h
  exact renderColumns_inv hP hE hL.2.2.1 (tm := .pre) (by decide) _ 0 _ h1

theorem ircTail_inv (ncol : Nat) (w : World) (h : P w) : P (ircTail dw t ncol w) := by
  unfold ircTail
  have h5 := renderColumns_inv hP hE hL.2.2.1 (tm := .post) (by decide) ncol 0 _ h
  exact invoke_self_read hP hE (fun w => (w.table t).selfCbs.at .post) (fun _ => rfl)
    (CbSet.okSelf_at hL.1 (by decide : Time.post ≠ .add)) (.table t) (.table t) _ h5

/-- the whole pass keeps every step invariant that pins `erase` -/
theorem irc_inv (h : P w0) : P (invokeRenderCallbacks dw w0 t) := by
  rw [irc_eq]
  exact ircTail_inv hP hE hL _ _ (ircRows_inv hP hE hL _ (ircHead_inv hP hE hL _ (ircInit_inv hP hE hL _ h)))

end

/-! ### establishment: after the pass every cell of the table is measured -/

/-- `M r j w`: "cell `(r, j)` of `w` is measured"; kept by every step, established by running a
    callback list containing `cb` on that cell -/
structure MeasSpec (dw : Measure) (M : Nat → Nat → World → Prop) (cb : Cb) : Prop where
  inv : ∀ r j, StepInv dw (M r j)
  est : ∀ (cbs : List Cb) (r c : Nat) (tk : Taker) (w : World), cbs.all Cb.okCell = true → cb ∈ cbs →
    M r c (invoke dw w cbs (.cell r c) tk)

def DimM (dw : Measure) (r j : Nat) (w : World) : Prop :=
  KeyMeas dw .ttDims r j w ∧ KeyMeas dw .ttLines r j w

theorem dimSpec (dw : Measure) : MeasSpec dw (DimM dw) .dimSetter :=
  { inv := fun r j => (stepInv_keyMeas dw .ttDims r j).and (stepInv_keyMeas dw .ttLines r j)
    est := fun cbs r c tk w hok hmem => invoke_dim_est dw cbs r c tk hok w (Or.inl hmem) }

theorem widSpec (dw : Measure) : MeasSpec dw (KeyMeas dw .mdWidth) .widthSetter :=
  { inv := fun r j => stepInv_keyMeas dw .mdWidth r j
    est := fun cbs r c tk w hok hmem => invoke_wid_est dw cbs r c tk hok w (Or.inl hmem) }

section
variable {dw : Measure} {M : Nat → Nat → World → Prop} {cb : Cb} (S : MeasSpec dw M cb) {w0 : World} {t : Nat}
  (hT : (w0.table t).cellCbs.okCell = true) (hcb : cb ∈ (w0.table t).cellCbs.render)
include S hT hcb

theorem cellPre_est {r : Nat} (hR : RowLogOnly w0 r) (i : Nat) (hi : i < (w0.rowCells r).length) (w : World)
    (h : w.erase = w0.erase) : M r i (cellPre dw t r i w) := by
  unfold cellPre
  have h3 : (cellPre3 dw t r i w).erase = w0.erase :=
    cellPre3_inv (stepInv_erase dw w0.erase) (fun _ h => h) hT hR i hi w h
  have ht : (cellPre3 dw t r i w).table t = w0.table t := of_erase_eq (fun w => w.table t) (rd_table t) h3
  simp only [ht]
  exact S.est _ r i _ _ (CbSet.okCell_at hT (by decide : Time.render ≠ .add)) hcb

theorem renderCells_est {r : Nat} (hR : RowLogOnly w0 r) : ∀ (n i : Nat) (w : World),
    i + n ≤ (w0.rowCells r).length → w.erase = w0.erase → ∀ j, i ≤ j → j < i + n →
    M r j (renderCells dw t r n i w)
  | 0, _, _, _, _, _, h1, h2 => by omega
  | n + 1, i, w, hi, h, j, hij, hjn => by
    rw [renderCells_succ]
    have hcol : columnOf w r i = columnOf w0 r i := of_erase_eq (fun w => columnOf w r i) (rd_columnOf r i) h
    have hPe := stepInv_erase dw w0.erase
    have e1 := cellPre_inv hPe (fun _ h => h) hT hR i (by omega) w h
    by_cases hj : j = i
    · subst hj
      have hP' := hPe.and (S.inv r j)
      have hE' : ∀ w, (w.erase = w0.erase ∧ M r j w) → w.erase = w0.erase := fun _ h => h.1
      have h1 : (cellPre dw t r j w).erase = w0.erase ∧ M r j (cellPre dw t r j w) :=
        ⟨e1, cellPre_est S hT hcb hR j (by omega) w h⟩
      have h2 := cellPost_inv hP' hE' hT hR j (by omega) _ hcol _ h1
      exact (renderCells_inv hP' hE' hT hR n (j + 1) _ (by omega) h2).2
    · have e2 := cellPost_inv hPe (fun _ h => h) hT hR i (by omega) _ hcol _ e1
      exact renderCells_est hR n (i + 1) _ (by omega) e2 j (by omega) (by omega)

theorem renderRow_est {r : Nat} (hR : RowLogOnly w0 r) (w : World) (h : w.erase = w0.erase) (j : Nat)
    (hj : j < (w0.rowCells r).length) : M r j (renderRow dw t w r) := by
  unfold renderRow
  have hPe := stepInv_erase dw w0.erase
  have h1 := invoke_self_read hPe (fun _ h => h) (fun w => (w.row r).selfCbs.at .pre)
    (fun w => by show ((w.erase.row r).selfCbs).at .pre = _; rw [rd_rowSelf])
    (CbSet.okSelf_at hR.1 (by decide : Time.pre ≠ .add)) (.row r) (.table t) w h
  have hlen := of_erase_eq (fun w => (w.rowCells r).length) (rd_rowCellsLen r) h1
  have e2 := renderCells_inv hPe (fun _ h => h) hT hR _ 0 _ (Nat.le_of_eq (by rw [Nat.zero_add])) h1
  have m2 := renderCells_est S hT hcb hR _ 0 _ (Nat.le_of_eq (by rw [Nat.zero_add])) h1 j (Nat.zero_le _)
    (by rw [Nat.zero_add]; exact hj)
  rw [← hlen] at e2 m2
  have hP' := hPe.and (S.inv r j)
  exact (invoke_self_read hP' (fun _ h => h.1) (fun w => (w.row r).selfCbs.at .post)
    (fun w => by show ((w.erase.row r).selfCbs).at .post = _; rw [rd_rowSelf])
    (CbSet.okSelf_at hR.1 (by decide : Time.post ≠ .add)) (.row r) (.table t) _ ⟨e2, m2⟩).2

theorem rows_est : ∀ (rs : List Nat), (∀ r ∈ rs, RowLogOnly w0 r) → ∀ w, w.erase = w0.erase →
    ∀ r ∈ rs, ∀ j, j < (w0.rowCells r).length → M r j (rs.foldl (renderRow dw t) w)
  | [], _, _, _, _, hr, _, _ => by simp at hr
  | r0 :: rs, hrs, w, h, r, hr, j, hj => by
    rw [List.foldl_cons]
    have hPe := stepInv_erase dw w0.erase
    have hrs' : ∀ r ∈ rs, RowLogOnly w0 r := fun r' hr' => hrs r' (List.mem_cons_of_mem _ hr')
    have h1 : (renderRow dw t w r0).erase = w0.erase :=
      renderRow_inv hPe (fun _ h => h) hT (hrs r0 (List.mem_cons_self ..)) w h
    by_cases hmem : r ∈ rs
    · exact rows_est rs hrs' _ h1 r hmem j hj
    · have hr0 : r = r0 := by
        simp only [List.mem_cons] at hr
        cases hr with
        | inl h => exact h
        | inr h => exact absurd h hmem
      subst hr0
      have hM := renderRow_est S hT hcb (hrs r (List.mem_cons_self ..)) w h j hj
      have hP' := hPe.and (S.inv r j)
      exact (rows_inv hP' (fun _ h => h.1) hT rs hrs' _ ⟨h1, hM⟩).2

end

/-- after the pass, every cell of the header and of every row of the table is measured -/
theorem irc_est {dw : Measure} {M : Nat → Nat → World → Prop} {cb : Cb} (S : MeasSpec dw M cb) {w0 : World}
    {t : Nat} (hL : LogOnly w0 t) (hcb : cb ∈ (w0.table t).cellCbs.render) (r : Nat)
    (hr : r ∈ (w0.table t).header.toList ++ (w0.table t).rows) (j : Nat) (hj : j < (w0.rowCells r).length) :
    M r j (invokeRenderCallbacks dw w0 t) := by
  rw [irc_eq]
  have hPe := stepInv_erase dw w0.erase
  have hE : ∀ w : World, w.erase = w0.erase → w.erase = w0.erase := fun _ h => h
  have hP' := hPe.and (S.inv r j)
  have hE' : ∀ w : World, (w.erase = w0.erase ∧ M r j w) → w.erase = w0.erase := fun _ h => h.1
  have e2 := ircInit_inv hPe hE hL w0 rfl
  have e3 := ircHead_inv hPe hE hL _ e2
  by_cases hrows : r ∈ (w0.table t).rows
  · have ht : (ircHead dw t (ircInit dw t w0)).table t = w0.table t :=
      of_erase_eq (fun w => w.table t) (rd_table t) e3
    have m4 : M r j (ircRows dw t (ircHead dw t (ircInit dw t w0))) := by
      unfold ircRows
      rw [ht]
      exact rows_est S hL.2.1 hcb _ (fun r hr => hL.2.2.2 r (by simp [hr])) _ e3 r hrows j hj
    have e4 := ircRows_inv hPe hE hL _ e3
    exact (ircTail_inv hP' hE' hL _ _ ⟨e4, m4⟩).2
  · have hhead : (w0.table t).header = some r := by
      simp only [List.mem_append, Option.mem_toList] at hr
      cases hr with
      | inl h => exact h
      | inr h => exact absurd h hrows
    have ht : (ircInit dw t w0).table t = w0.table t := of_erase_eq (fun w => w.table t) (rd_table t) e2
    have m3 : M r j (ircHead dw t (ircInit dw t w0)) := by
      unfold ircHead
      rw [ht, hhead]
      exact renderRow_est S hL.2.1 hcb (hL.2.2.2 r hr) _ e2 j hj
    exact (ircTail_inv hP' hE' hL _ _ (ircRows_inv hP' hE' hL _ ⟨e3, m3⟩)).2

end World
end Tab
