/- C13h helper lemmas: the rows a render pass visits are pairwise distinct in every world that
   satisfies the structural invariant of C02. -/
import Tabmodel.Props.C02
import Tabmodel.Proofs.C13Spec
namespace Tab
open World
namespace C13h

/-- header row (if any) followed by the body rows: no row id twice -/
theorem renderRows_nodup_of_inv {w : World} (hinv : Inv w) (t : Nat) : (renderRows w t).Nodup := by
  unfold renderRows
  rw [List.nodup_append]
  refine ⟨?_, (c02_inv_rows_unique hinv t).1, ?_⟩
  · cases (w.table t).header <;> simp
  · intro a ha b hb e
    subst e
    cases hh : (w.table t).header with
    | none => rw [hh] at ha; simp at ha
    | some hd =>
      rw [hh] at ha
      simp only [Option.toList_some, List.mem_singleton] at ha
      subst ha
      exact (c02_inv_header hinv t a hh).2.2 t hb

theorem run_snoc' (dw : Measure) (ops : List BuildOp) (op : BuildOp) :
    run dw (ops ++ [op]) = applyOp dw (run dw ops) op := by
  simp [run, runFrom, List.foldl_append]

end C13h
end Tab
