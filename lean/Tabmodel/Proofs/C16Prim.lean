/-
  C16 helpers, part 2: the primitive world updates (`modTable`, `modRow`, `modCell`, `modColumn`,
  `addErrTo`, `setProp`, `invokeOne`, `invoke`) are local steps.
-/
import Tabmodel.Proofs.C16Basic
namespace Tab
namespace C16
open World

variable {t : Nat} {P I : Nat → Prop}

/-! ### list facts -/

theorem getElem?_modify_ne {α : Type} (f : α → α) (l : List α) {i j : Nat} (h : i ≠ j) :
    (l.modify i f)[j]? = l[j]? := by
  rw [List.getElem?_modify]; simp [h]

theorem mem_modify {α : Type} (f : α → α) (l : List α) (i : Nat) (a : α) (h : a ∈ l.modify i f) :
    a ∈ l ∨ ∃ b ∈ l, a = f b := by
  obtain ⟨j, hj⟩ := List.getElem?_of_mem h
  rw [List.getElem?_modify] at hj
  cases hl : l[j]? with
  | none => rw [hl] at hj; simp at hj
  | some b =>
    rw [hl] at hj
    have hb : b ∈ l := List.mem_of_getElem? hl
    by_cases hij : i = j
    · simp [hij] at hj; exact .inr ⟨b, hb, hj.symm⟩
    · simp [hij] at hj; exact .inl (hj ▸ hb)

/-! ### world updates: projections -/

@[simp] theorem modTable_rows (w : World) (t : Nat) (g : Table → Table) : (w.modTable t g).rows = w.rows := rfl
@[simp] theorem modTable_items (w : World) (t : Nat) (g : Table → Table) : (w.modTable t g).items = w.items := rfl
@[simp] theorem modTable_tables (w : World) (t : Nat) (g : Table → Table) :
    (w.modTable t g).tables = w.tables.modify t g := rfl
@[simp] theorem modRow_tables (w : World) (r : Nat) (g : Row → Row) : (w.modRow r g).tables = w.tables := rfl
@[simp] theorem modRow_items (w : World) (r : Nat) (g : Row → Row) : (w.modRow r g).items = w.items := rfl
@[simp] theorem modRow_rows (w : World) (r : Nat) (g : Row → Row) :
    (w.modRow r g).rows = w.rows.modify r g := rfl

theorem modTable_table_self (w : World) (t : Nat) (g : Table → Table) (h : t < w.tables.length) :
    (w.modTable t g).table t = g (w.table t) := by
  simp [table_def, List.getElem?_eq_getElem h]

theorem modTable_table_oor (w : World) (t : Nat) (g : Table → Table) (h : w.tables.length ≤ t) :
    (w.modTable t g).table t = w.table t := by
  simp [table_def, List.getElem?_eq_none h]

theorem modRow_row_self (w : World) (r : Nat) (g : Row → Row) (h : r < w.rows.length) :
    (w.modRow r g).row r = g (w.row r) := by
  simp [row_def, List.getElem?_eq_getElem h]

theorem modRow_row_ne (w : World) {r r' : Nat} (g : Row → Row) (h : r ≠ r') :
    (w.modRow r g).row r' = w.row r' := by
  simp [row_def, getElem?_modify_ne g w.rows h]

theorem modRow_table (w : World) (r : Nat) (g : Row → Row) (t : Nat) : (w.modRow r g).table t = w.table t := rfl
theorem modTable_row (w : World) (t : Nat) (g : Table → Table) (r : Nat) : (w.modTable t g).row r = w.row r := rfl
theorem modTable_item (w : World) (t : Nat) (g : Table → Table) (i : Nat) : (w.modTable t g).item i = w.item i := rfl
theorem modRow_item (w : World) (r : Nat) (g : Row → Row) (i : Nat) : (w.modRow r g).item i = w.item i := rfl

/-! ### primitive local steps -/

/-- updating table `t` by a function that does not enlarge the footprint beyond `P` -/
theorem ls_modTable (g : Table → Table) (hg : ∀ tb r, FootT (g tb) r → FootT tb r ∨ P r) :
    LocalStep t P I (fun w => w.modTable t g) := fun w h => by
  refine ⟨⟨by simp, fun t' ht => by simp [getElem?_modify_ne g w.tables (Ne.symm ht)], Nat.le_refl _,
      fun _ _ _ => rfl, rfl⟩, ⟨h.inrange, h.rowok, fun r hr => ?_⟩, rfl, fun w₂ ha => ⟨?_, ha.rows, ha.items⟩⟩
  · by_cases hl : t < w.tables.length
    · rw [modTable_table_self w t g hl] at hr
      rcases hg _ _ hr with h1 | h1
      · exact h.foot r h1
      · exact h1
    · rw [modTable_table_oor w t g (Nat.le_of_not_lt hl)] at hr
      exact h.foot r hr
  · simp only [modTable_tables, List.getElem?_modify, ha.tab]

/-- updating a row in `P` by a function that keeps it well-formed -/
theorem ls_modRow {r : Nat} (hr : P r) (g : Row → Row) (hg : ∀ rw, RowOK t r I rw → RowOK t r I (g rw)) :
    LocalStep t P I (fun w => w.modRow r g) := fun w h => by
  refine ⟨⟨rfl, fun _ _ => rfl, by simp, fun r' hr' _ => ?_, rfl⟩,
    ⟨fun r' hr' => by simpa using h.inrange r' hr', fun r' hr' => ?_, h.foot⟩, by simp,
    fun w₂ ha => ⟨ha.tab, fun r' hr' => ?_, ha.items⟩⟩
  · have : r ≠ r' := fun e => hr' (e ▸ hr)
    simp [getElem?_modify_ne g w.rows this]
  · by_cases e : r = r'
    · subst e
      rw [modRow_row_self w r g (h.inrange r hr)]
      exact hg _ (h.rowok r hr)
    · rw [modRow_row_ne w g e]; exact h.rowok r' hr'
  · simp only [modRow_rows, List.getElem?_modify, ha.rows r' hr']

/-- updates that touch neither tables, rows nor items (event log, caller-held cell copies) -/
theorem ls_other (f : World → World)
    (hf : ∀ w, (f w).tables = w.tables ∧ (f w).rows = w.rows ∧ (f w).items = w.items) :
    LocalStep t P I f := fun w h => by
  obtain ⟨h1, h2, h3⟩ := hf w
  refine ⟨⟨by rw [h1], fun _ _ => by rw [h1], by rw [h2]; exact Nat.le_refl _, fun _ _ _ => by rw [h2], h3⟩,
    ⟨fun r hr => by rw [h2]; exact h.inrange r hr, fun r hr => ?_, fun r hr => ?_⟩, by rw [h2], fun w₂ ha => ?_⟩
  · have : (f w).row r = w.row r := by simp [row, h2]
    rw [this]; exact h.rowok r hr
  · have : (f w).table t = w.table t := by simp [table, h1]
    rw [this] at hr; exact h.foot r hr
  · obtain ⟨g1, g2, g3⟩ := hf w₂
    refine ⟨by rw [h1, g1]; exact ha.tab, fun r hr => by rw [h2, g2]; exact ha.rows r hr, fun i hi => ?_⟩
    have e1 : (f w).item i = w.item i := by simp [item, h3]
    have e2 : (f w₂).item i = w₂.item i := by simp [item, g3]
    rw [e1, e2]; exact ha.items i hi

/-! ### who a step may write to -/

/-- an error receiver belonging to table `t` / rows `P` -/
def TakerOK (t : Nat) (P : Nat → Prop) : Taker → Prop
  | .drop => True
  | .table t' => t' = t
  | .rowOwn r => P r
  | .rowLazy r => P r

/-- a property owner belonging to table `t` / rows `P` (`copy`: a by-value cell held by the caller) -/
def TgtOK (t : Nat) (P : Nat → Prop) : Target → Prop
  | .table t' => t' = t
  | .column t' _ => t' = t
  | .row r => P r
  | .cell r _ => P r
  | .copy _ => True

theorem rowOK_modCell {r : Nat} (c : Nat) (f : Cell → Cell)
    (hf : ∀ ce, (f ce).inRow = ce.inRow ∧ (f ce).item = ce.item) (rw : Row) (h : RowOK t r I rw) :
    RowOK t r I { rw with cells := rw.cells.map (fun cs => cs.modify c f) } := by
  refine ⟨h.inT, h.ec, fun ce hce => ?_⟩
  cases hc : rw.cells with
  | none => simp [hc] at hce
  | some cs =>
    simp only [hc, Option.map_some, Option.getD_some] at hce
    have hcs : ∀ ce ∈ cs, CellOK r I ce := by
      intro ce h'; apply h.cells; simp [hc, h']
    rcases mem_modify f cs c ce hce with h1 | ⟨b, hb, rfl⟩
    · exact hcs ce h1
    · have := hcs b hb
      unfold CellOK at *
      rw [(hf b).1, (hf b).2]; exact this

theorem ls_modCell {r : Nat} (hr : P r) (c : Nat) (f : Cell → Cell)
    (hf : ∀ ce, (f ce).inRow = ce.inRow ∧ (f ce).item = ce.item) :
    LocalStep t P I (fun w => w.modCell r c f) :=
  ls_modRow hr _ (rowOK_modCell c f hf)

theorem ls_modColumn (n : Nat) (f : Column → Column) : LocalStep t P I (fun w => w.modColumn t n f) :=
  ls_modTable _ (fun _ _ h => .inl h)

/-! ### `addErrTo` -/

theorem rd_ec {r : Nat} (hr : P r) : Rd t P I (fun w => (w.row r).ec) (ecOK t) :=
  (rd_row hr).map (·.ec) _ (fun _ h => h.ec)

theorem ls_addErrTo {tk : Taker} (htk : TakerOK t P tk) (e : Nat) :
    LocalStep t P I (fun w => addErrTo w tk e) := by
  cases tk with
  | drop => exact LocalStep.id' t P I
  | table t' =>
    have : t' = t := htk
    subst this
    exact ls_modTable _ (fun _ _ h => .inl h)
  | rowOwn r =>
    refine ls_modRow htk _ (fun rw h => ?_)
    cases he : rw.ec <;> simp only [] <;> first | exact h | exact ⟨h.inT, trivial, h.cells⟩
  | rowLazy r =>
    have hr : P r := htk
    show LocalStep t P I (rd (fun w => (w.row r).ec) (fun ec w => match ec with
      | .none => w.modRow r (fun rw => { rw with ec := .own [e] })
      | .own es => w.modRow r (fun rw => { rw with ec := .own (es ++ [e]) })
      | .table t' => w.modTable t' (fun tb => { tb with errs := tb.errs ++ [e] })))
    refine LocalStep.rd (rd_ec hr) (fun ec hec => ?_)
    cases ec with
    | none => exact ls_modRow hr _ (fun rw h => ⟨h.inT, trivial, h.cells⟩)
    | own es => exact ls_modRow hr _ (fun rw h => ⟨h.inT, trivial, h.cells⟩)
    | table t' =>
      have : t' = t := hec
      subst this
      exact ls_modTable _ (fun _ _ h => .inl h)

/-! ### `setProp` -/

theorem ls_setProp {o : Target} (ho : TgtOK t P o) (k : Key) (v : Option Val) :
    LocalStep t P I (fun w => setProp w o k v) := by
  cases o with
  | table t' =>
    have : t' = t := ho
    subst this
    exact ls_modTable _ (fun _ _ h => .inl h)
  | column t' n =>
    have : t' = t := ho
    subst this
    exact ls_modColumn n _
  | row r => exact ls_modRow ho _ (fun rw h => ⟨h.inT, h.ec, h.cells⟩)
  | cell r c => exact ls_modCell ho c _ (fun _ => ⟨rfl, rfl⟩)
  | copy n => exact ls_other _ (fun _ => ⟨rfl, rfl, rfl⟩)

/-! ### `invokeOne`, `invoke` -/

theorem ls_event (ev : Event) : LocalStep t P I (fun w => { w with events := w.events ++ [ev] }) :=
  ls_other _ (fun _ => ⟨rfl, rfl, rfl⟩)

theorem rd_cell? {r : Nat} (hr : P r) (c : Nat) :
    Rd t P I (fun w => w.cell? r c) (fun oc => ∀ ce, oc = some ce → CellOK r I ce) :=
  (rd_row hr).map (fun rw => (rw.cells.getD [])[c]?) _ (fun rw h ce hce => h.cells ce (List.mem_of_getElem? hce))

theorem ls_invokeOne (dw : Measure) (cb : Cb) {tgt : Target} (htgt : TgtOK t P tgt)
    {tk : Taker} (htk : TakerOK t P tk) : LocalStep t P I (fun w => invokeOne dw w cb tgt tk) := by
  cases cb with
  | log id => exact ls_event _
  | setProp id k v => exact LocalStep.seq (ls_event _) (ls_setProp htgt k v)
  | fail id e => exact LocalStep.seq (ls_event _) (ls_addErrTo htk e)
  | dimSetter =>
    cases tgt with
    | cell r c =>
      have hr : P r := htgt
      show LocalStep t P I (rd (fun w => w.cell? r c) (fun oc w => match oc with
        | some ce => rd (fun w => w.item ce.item) (fun it w =>
            setProp (setProp w (.cell r c) .ttDims (some (dimProps dw it ce).1)) (.cell r c) .ttLines
              (some (dimProps dw it ce).2)) w
        | none => w))
      refine LocalStep.rd (rd_cell? hr c) (fun oc hoc => ?_)
      cases oc with
      | none => exact LocalStep.id' t P I
      | some ce =>
        refine LocalStep.rd (rd_item (hoc ce rfl).2) (fun it _ => ?_)
        exact LocalStep.seq (ls_setProp htgt _ _) (ls_setProp htgt _ _)
    | table _ => exact ls_addErrTo htk _
    | column _ _ => exact ls_addErrTo htk _
    | row _ => exact ls_addErrTo htk _
    | copy _ => exact ls_addErrTo htk _
  | widthSetter =>
    cases tgt with
    | cell r c =>
      have hr : P r := htgt
      show LocalStep t P I (rd (fun w => w.cell? r c) (fun oc w => match oc with
        | some ce => setProp w (.cell r c) .mdWidth (some (.mdw ce.termWidth))
        | none => w))
      refine LocalStep.rd (rd_cell? hr c) (fun oc _ => ?_)
      cases oc with
      | none => exact LocalStep.id' t P I
      | some ce => exact ls_setProp htgt _ _
    | table _ => exact ls_addErrTo htk _
    | column _ _ => exact ls_addErrTo htk _
    | row _ => exact ls_addErrTo htk _
    | copy _ => exact ls_addErrTo htk _

theorem ls_invoke (dw : Measure) (cbs : List Cb) {tgt : Target} (htgt : TgtOK t P tgt)
    {tk : Taker} (htk : TakerOK t P tk) : LocalStep t P I (fun w => invoke dw w cbs tgt tk) :=
  LocalStep.foldl (fun w cb => invokeOne dw w cb tgt tk) cbs (fun cb _ => ls_invokeOne dw cb htgt htk)

end C16
end Tab
