/- C13x helper lemmas: what invoking ANY callback does to the event log, the callback sets and the
   skeleton; the invariant carried along a traversal (`Ext`). -/
import Tabmodel.Proofs.C13xSpec
import Tabmodel.Proofs.C13Add
import Tabmodel.Proofs.WorldObs
set_option linter.unusedSimpArgs false
namespace Tab
open World C13
namespace C13x

/-! ### `userEvents` -/

@[simp] theorem userEvents_nil (tgt : Target) : userEvents [] tgt = [] := rfl
theorem userIds_append (a b : List Cb) : userIds (a ++ b) = userIds a ++ userIds b := by
  simp [userIds, List.filterMap_append]
theorem userEvents_append (a b : List Cb) (tgt : Target) :
    userEvents (a ++ b) tgt = userEvents a tgt ++ userEvents b tgt := by
  simp [userEvents, userIds_append]
theorem userEvents_cons (cb : Cb) (cbs : List Cb) (tgt : Target) :
    userEvents (cb :: cbs) tgt = userEvents [cb] tgt ++ userEvents cbs tgt :=
  userEvents_append [cb] cbs tgt
theorem userEvents_one (cb : Cb) (tgt : Target) :
    userEvents [cb] tgt = match cb.id? with | some id => [⟨id, tgt⟩] | none => [] := by
  cases cb <;> rfl

/-! ### `SameSkeleton` -/

theorem same_refl (w : World) : SameSkeleton w w := ⟨fun _ => rfl, rfl, rfl⟩
theorem same_trans {a b c : World} (h1 : SameSkeleton a b) (h2 : SameSkeleton b c) : SameSkeleton a c :=
  ⟨fun s => (h1.cbs s).trans (h2.cbs s), h1.shape.trans h2.shape, h1.ncopies.trans h2.ncopies⟩
theorem same_symm {a b : World} (h : SameSkeleton a b) : SameSkeleton b a :=
  ⟨fun s => (h.cbs s).symm, h.shape.symm, h.ncopies.symm⟩

theorem same_events (w : World) (es : List Event) : SameSkeleton ({ w with events := es } : World) w :=
  ⟨fun s => by cases s <;> rfl, rfl, rfl⟩

/-! ### `setProp` / `addErrTo` keep callback sets -/

theorem cbSet_modColumn_props (w : World) (t n : Nat) (f : Column → Column)
    (h1 : ∀ c, (f c).selfCbs = c.selfCbs) (h2 : ∀ c, (f c).cellCbs = c.cellCbs) (s : CbSlot) :
    (w.modColumn t n f).cbSet s = w.cbSet s := by
  unfold World.modColumn
  refine cbSet_modTable_of w t _ (by intro _; rfl) (by intro _; rfl) (by intro _; rfl) ?_ ?_ s
  · intro tb m
    simp only [List.getElem?_modify]
    split
    · cases tb.columns[m]? <;> simp [h1]
    · simp
  · intro tb m
    simp only [List.getElem?_modify]
    split
    · cases tb.columns[m]? <;> simp [h2]
    · simp

theorem cbSet_modCell_props (w : World) (r c : Nat) (f : Cell → Cell) (h : ∀ ce, (f ce).cbs = ce.cbs)
    (s : CbSlot) : (w.modCell r c f).cbSet s = w.cbSet s := by
  cases s <;> simp only [World.cbSet, cell?_modCell, table_modCell, copies_modCell]
  case cellOwn r' c' =>
    split
    · cases w.cell? r' c' <;> simp [h]
    · rfl
  case rowSelf r' => simp only [World.modCell, row_modRow]; split <;> rfl
  case rowCell r' => simp only [World.modCell, row_modRow]; split <;> rfl
  all_goals rfl

theorem cbSet_modCopy_props (w : World) (n : Nat) (f : Cell → Cell) (h : ∀ ce, (f ce).cbs = ce.cbs)
    (s : CbSlot) : ({ w with copies := w.copies.modify n f } : World).cbSet s = w.cbSet s := by
  cases s <;> simp only [World.cbSet]
  case copyOwn n' =>
    simp only [List.getElem?_modify]
    split
    · cases w.copies[n']? <;> simp [h]
    · simp
  all_goals rfl

theorem cbSet_setProp (w : World) (o : Target) (k : Key) (v : Option Val) (s : CbSlot) :
    (w.setProp o k v).cbSet s = w.cbSet s := by
  cases o with
  | table t =>
    exact cbSet_modTable_of w t _ (by intro _; rfl) (by intro _; rfl) (by intro _; rfl)
      (by intro _ _; rfl) (by intro _ _; rfl) s
  | column t n => exact cbSet_modColumn_props w t n _ (by intro _; rfl) (by intro _; rfl) s
  | row r => exact cbSet_modRow_of w r _ (by intro _; rfl) (by intro _; rfl) (by intro _; rfl) s
  | cell r c => exact cbSet_modCell_props w r c _ (by intro _; rfl) s
  | copy n => exact cbSet_modCopy_props w n _ (by intro _; rfl) s

theorem cbSet_addErrTo (w : World) (tk : Taker) (e : Nat) (s : CbSlot) :
    (w.addErrTo tk e).cbSet s = w.cbSet s := by
  unfold World.addErrTo
  cases tk with
  | drop => rfl
  | table t =>
    exact cbSet_modTable_of w t _ (by intro _; rfl) (by intro _; rfl) (by intro _; rfl)
      (by intro _ _; rfl) (by intro _ _; rfl) s
  | rowOwn r =>
    refine cbSet_modRow_of w r _ ?_ ?_ ?_ s <;> (intro rw; split <;> rfl)
  | rowLazy r =>
    dsimp only
    split
    · exact cbSet_modRow_of w r _ (by intro _; rfl) (by intro _; rfl) (by intro _; rfl) s
    · exact cbSet_modRow_of w r _ (by intro _; rfl) (by intro _; rfl) (by intro _; rfl) s
    · exact cbSet_modTable_of w _ _ (by intro _; rfl) (by intro _; rfl) (by intro _; rfl)
        (by intro _ _; rfl) (by intro _ _; rfl) s

theorem events_setProp (w : World) (o : Target) (k : Key) (v : Option Val) :
    (w.setProp o k v).events = w.events := by
  cases o <;> rfl

theorem copies_length_setProp (w : World) (o : Target) (k : Key) (v : Option Val) :
    (w.setProp o k v).copies.length = w.copies.length := by
  cases o <;> simp [World.setProp, World.modTable, World.modColumn, World.modRow, World.modCell]

theorem copies_addErrTo (w : World) (tk : Taker) (e : Nat) : (w.addErrTo tk e).copies = w.copies := by
  unfold World.addErrTo
  cases tk with
  | drop => rfl
  | table t => rfl
  | rowOwn r => rfl
  | rowLazy r => dsimp only; split <;> rfl

theorem same_setProp (w : World) (o : Target) (k : Key) (v : Option Val) :
    SameSkeleton (w.setProp o k v) w :=
  ⟨cbSet_setProp w o k v, shape_setProp w o k v, copies_length_setProp w o k v⟩

theorem same_addErrTo (w : World) (tk : Taker) (e : Nat) : SameSkeleton (w.addErrTo tk e) w :=
  ⟨cbSet_addErrTo w tk e, shape_addErrTo w tk e, by rw [copies_addErrTo]⟩

/-! ### one invocation -/

theorem same_invokeOne (dw : Measure) (w : World) (cb : Cb) (tgt : Target) (tk : Taker) :
    SameSkeleton (invokeOne dw w cb tgt tk) w := by
  unfold World.invokeOne
  split
  · exact same_events w _
  · exact same_trans (same_setProp _ _ _ _) (same_events w _)
  · exact same_trans (same_addErrTo _ _ _) (same_events w _)
  · split
    · split
      · exact same_trans (same_setProp _ _ _ _) (same_setProp _ _ _ _)
      · exact same_refl w
    · exact same_addErrTo _ _ _
  · split
    · split
      · exact same_setProp _ _ _ _
      · exact same_refl w
    · exact same_addErrTo _ _ _

theorem events_invokeOne (dw : Measure) (w : World) (cb : Cb) (tgt : Target) (tk : Taker) :
    (invokeOne dw w cb tgt tk).events = w.events ++ userEvents [cb] tgt := by
  unfold World.invokeOne
  split
  · rfl
  · rw [events_setProp]; rfl
  · rw [events_addErrTo]; rfl
  · split
    · split
      · simp [events_setProp, userEvents, userIds, Cb.id?]
      · simp [userEvents, userIds, Cb.id?]
    · simp [events_addErrTo, userEvents, userIds, Cb.id?]
  · split
    · split
      · simp [events_setProp, userEvents, userIds, Cb.id?]
      · simp [userEvents, userIds, Cb.id?]
    · simp [events_addErrTo, userEvents, userIds, Cb.id?]

/-! ### the invariant carried along a traversal -/

/-- `J` is kept by invoking any callback registered somewhere in `w0` on a world with `w0`'s skeleton -/
def StepInv (dw : Measure) (w0 : World) (J : World → List Event → Prop) : Prop :=
  ∀ w' es cb tgt tk, SameSkeleton w' w0 → (∃ s tm, cb ∈ w0.cbsAt s tm) → J w' es →
    J (invokeOne dw w' cb tgt tk) (es ++ userEvents [cb] tgt)

structure Ext (w0 : World) (J : World → List Event → Prop) (w' : World) (es : List Event) : Prop where
  same : SameSkeleton w' w0
  events : w'.events = w0.events ++ es
  inv : J w' es

theorem ext_invoke_list (dw : Measure) {w0 : World} {J : World → List Event → Prop} (hJ : StepInv dw w0 J)
    (tgt : Target) (tk : Taker) :
    ∀ (X : List Cb) (w' : World) (es : List Event), (∀ cb ∈ X, ∃ s tm, cb ∈ w0.cbsAt s tm) →
      Ext w0 J w' es → Ext w0 J (invoke dw w' X tgt tk) (es ++ userEvents X tgt) := by
  intro X
  induction X with
  | nil => intro w' es _ h; simpa [World.invoke] using h
  | cons cb X ih =>
    intro w' es hX h
    have h1 : Ext w0 J (invokeOne dw w' cb tgt tk) (es ++ userEvents [cb] tgt) :=
      ⟨same_trans (same_invokeOne dw w' cb tgt tk) h.same,
       by rw [events_invokeOne, h.events, List.append_assoc],
       hJ w' es cb tgt tk h.same (hX cb (by simp)) h.inv⟩
    have := ih _ _ (fun c hc => hX c (by simp [hc])) h1
    rw [userEvents_cons, ← List.append_assoc]
    simpa [World.invoke] using this

/-- invoking the callbacks of slot `s` at `tm` (read from the current world) -/
theorem ext_invoke_slot (dw : Measure) {w0 : World} {J : World → List Event → Prop} (hJ : StepInv dw w0 J)
    {w' : World} {es : List Event} (h : Ext w0 J w' es) (s : CbSlot) (tm : Time) {cbs : List Cb}
    (hc : SameSkeleton w' w0 → cbs = w0.cbsAt s tm) (tgt : Target) (tk : Taker) :
    Ext w0 J (invoke dw w' cbs tgt tk) (es ++ userEvents (w0.cbsAt s tm) tgt) := by
  rw [hc h.same]
  exact ext_invoke_list dw hJ tgt tk _ _ _ (fun cb hcb => ⟨s, tm, hcb⟩) h

/-- invoking the cell callbacks of the column of cell `(r, i)` -/
theorem ext_invoke_col (dw : Measure) {w0 : World} {J : World → List Event → Prop} (hJ : StepInv dw w0 J)
    {w' : World} {es : List Event} (h : Ext w0 J w' es) (r i : Nat) (tm : Time) {cbs : List Cb}
    (hc : SameSkeleton w' w0 → cbs = colCellAt w0 r i tm) (tgt : Target) (tk : Taker) :
    Ext w0 J (invoke dw w' cbs tgt tk) (es ++ userEvents (colCellAt w0 r i tm) tgt) := by
  rw [hc h.same]
  refine ext_invoke_list dw hJ tgt tk _ _ _ ?_ h
  intro cb hcb
  unfold colCellAt at hcb
  cases hco : w0.columnOf r i with
  | none => rw [hco] at hcb; simp at hcb
  | some p => rw [hco] at hcb; exact ⟨_, _, hcb⟩

/-! ### reading a world that has `w0`'s skeleton -/

theorem same_cbsAt {w' w : World} (h : SameSkeleton w' w) (s : CbSlot) (tm : Time) :
    w'.cbsAt s tm = w.cbsAt s tm := by
  simp only [World.cbsAt, h.cbs]

theorem same_table_shape {w' w : World} (h : SameSkeleton w' w) (t : Nat) :
    (w'.table t).shape = (w.table t).shape := by
  rw [← shape_table, ← shape_table, h.shape]

theorem same_row_shape {w' w : World} (h : SameSkeleton w' w) (r : Nat) :
    (w'.row r).shape = (w.row r).shape := by
  rw [← shape_row, ← shape_row, h.shape]

theorem same_header {w' w : World} (h : SameSkeleton w' w) (t : Nat) : (w'.table t).header = (w.table t).header :=
  congrArg TableShape.header (same_table_shape h t)
theorem same_rows {w' w : World} (h : SameSkeleton w' w) (t : Nat) : (w'.table t).rows = (w.table t).rows :=
  congrArg TableShape.rows (same_table_shape h t)
theorem same_nColumns {w' w : World} (h : SameSkeleton w' w) (t : Nat) :
    (w'.table t).nColumns = (w.table t).nColumns :=
  congrArg TableShape.nColumns (same_table_shape h t)
theorem same_ncolrecs {w' w : World} (h : SameSkeleton w' w) (t : Nat) :
    (w'.table t).columns.length = (w.table t).columns.length :=
  congrArg TableShape.nColRecs (same_table_shape h t)
theorem same_inTable {w' w : World} (h : SameSkeleton w' w) (r : Nat) : (w'.row r).inTable = (w.row r).inTable :=
  congrArg RowShape.inTable (same_row_shape h r)

theorem rowCells_geo (w : World) (r : Nat) : (w.rowCells r).map Cell.geo = ((w.row r).shape.cells).getD [] := by
  unfold World.rowCells Row.shape
  cases (w.row r).cells <;> rfl

theorem same_rowCells_geo {w' w : World} (h : SameSkeleton w' w) (r : Nat) :
    (w'.rowCells r).map Cell.geo = (w.rowCells r).map Cell.geo := by
  rw [rowCells_geo, rowCells_geo, same_row_shape h]

theorem same_rowCells_length {w' w : World} (h : SameSkeleton w' w) (r : Nat) :
    (w'.rowCells r).length = (w.rowCells r).length := by
  have := congrArg List.length (same_rowCells_geo h r)
  simpa using this

theorem same_cell_geo {w' w : World} (h : SameSkeleton w' w) (r c : Nat) :
    (w'.cell? r c).map Cell.geo = (w.cell? r c).map Cell.geo := by
  have := congrArg (fun l => l[c]?) (same_rowCells_geo h r)
  simpa [World.cell?] using this

/-- `columnOfTable` in terms of the skeleton only -/
def columnOfGeo (g : Option CellGeo) (inT : Nat → Option Nat) (nCols : Nat → Nat) : Option (Nat × Nat) :=
  match g with
  | none => none
  | some (cn, ir) =>
    if cn < 1 then none else
    match ir with
    | none => none
    | some r' =>
      match inT r' with
      | none => none
      | some t => if cn > nCols t then none else some (t, cn)

theorem columnOf_eq_geo (w : World) (r c : Nat) :
    w.columnOf r c = columnOfGeo ((w.cell? r c).map Cell.geo) (fun r' => (w.row r').inTable)
      (fun t => (w.table t).nColumns) := by
  unfold World.columnOf columnOfGeo
  cases w.cell? r c <;> rfl

theorem same_columnOf {w' w : World} (h : SameSkeleton w' w) (r c : Nat) : w'.columnOf r c = w.columnOf r c := by
  rw [columnOf_eq_geo, columnOf_eq_geo, same_cell_geo h]
  congr 1
  · funext r'; exact same_inTable h r'
  · funext t; exact same_nColumns h t

theorem same_colCellAt {w' w : World} (h : SameSkeleton w' w) (r i : Nat) (tm : Time) :
    colCellAt w' r i tm = colCellAt w r i tm := by
  unfold colCellAt
  rw [same_columnOf h]
  cases w.columnOf r i with
  | none => rfl
  | some p => exact same_cbsAt h _ _

/-- the column cell-callbacks as the traversal reads them: the column was looked up in `w1`, the
    callbacks in `w2` -/
theorem same_colCellCbs {w1 w2 w : World} (h1 : SameSkeleton w1 w) (h2 : SameSkeleton w2 w) (r i : Nat) (tm : Time) :
    w2.colCellCbs (w1.columnOf r i) tm = colCellAt w r i tm := by
  rw [same_columnOf h1, ← same_columnOf h2, colCellCbs_eq, same_colCellAt h2]

theorem same_cellOwn {w' w : World} (h : SameSkeleton w' w) (r i : Nat) (tm : Time) :
    ((w'.cell? r i).map (·.cbs.at tm)).getD [] = w.cbsAt (.cellOwn r i) tm := by
  rw [cellOwn_eq, same_cbsAt h]

theorem same_colSelf {w' w : World} (h : SameSkeleton w' w) (t n : Nat) (tm : Time) :
    ((w'.column? t n).map (·.selfCbs.at tm)).getD [] = w.cbsAt (.colSelf t n) tm := by
  rw [colSelf_eq, same_cbsAt h]

end C13x
end Tab
