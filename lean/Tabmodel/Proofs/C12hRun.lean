/- C12h helper lemmas: every operation, then whole histories. -/
import Tabmodel.Proofs.C12hStep
set_option linter.unusedSimpArgs false
namespace Tab
open World C13 C13x
namespace C12h

/-! ### `Row.Add` of a ready-made cell value -/

/-- either no cell is created (missing row, or a row with a nil cell slice: only an error is recorded),
    or the row held `cs` and the callbacks run in the linked state -/
theorem rowAddCell_cases (dw : Measure) (k : Key) (w : World) (r : Nat) (ce : Cell) :
    (Keeps k w (rowAddCell dw w r ce) ∧ ¬ (r < w.rows.length ∧ (w.row r).cells.isSome = true)) ∨
    (∃ cs, r < w.rows.length ∧ (w.row r).cells = some cs ∧
      Keeps k (rowAddLinked w r ce cs) (rowAddCell dw w r ce)) := by
  by_cases hr : r < w.rows.length
  · cases hcs : (w.row r).cells with
    | none =>
      refine .inl ⟨?_, fun h => by simp [hcs] at h⟩
      rw [rowAddCell_nil dw w r ce hcs]; exact (csame_addErrTo w _ _).keeps k
    | some cs => exact .inr ⟨cs, hr, rfl, keeps_rowAddCell_linked dw k hcs ce⟩
  · refine .inl ⟨?_, fun h => hr h.1⟩
    have hd := row_default (Nat.le_of_not_lt hr)
    have hcs : (w.row r).cells = some [] := by rw [hd]
    have := keeps_rowAddCell_linked dw k hcs ce
    rwa [rowAddLinked_noobj (Nat.le_of_not_lt hr)] at this

theorem cbSet_all_at {s : CbSet} {p : Cb → Bool} (h : s.all p = true) (tm : Time) : ∀ cb ∈ s.at tm, p cb = true := by
  simp only [CbSet.all, Bool.and_eq_true, List.all_eq_true] at h
  cases tm
  · exact h.1.1.1
  · exact h.1.1.2
  · exact h.1.2
  · exact h.2

theorem allNodup_rowAddLinked {w : World} {r : Nat} {cs : List Cell} (hn : AllNodup w) (hr : r < w.rows.length)
    (hcs : (w.row r).cells = some cs) (ce : Cell) (hc : ce.props.keys.Nodup) :
    AllNodup (rowAddLinked w r ce cs) := by
  intro o
  rw [chainOf_rowAddLinked hr hcs]
  split
  · exact hc
  · exact hn o

theorem quiet_rowAddLinked {k : Key} {w : World} {r : Nat} {cs : List Cell} (hq : Quiet k w)
    (hr : r < w.rows.length) (hcs : (w.row r).cells = some cs) (ce : Cell)
    (hc : ce.cbs.all (fun cb => !cb.writes k) = true) : Quiet k (rowAddLinked w r ce cs) := by
  intro s tm cb hcb
  simp only [World.cbsAt, cbSet_rowAddLinked hr hcs] at hcb
  split at hcb
  · simpa using cbSet_all_at hc tm cb hcb
  · exact hq s tm cb hcb

theorem refines_rowAddCell (dw : Measure) {k : Key} {w : World} {p : PState} (hr : Refines k w p) (hq : Quiet k w)
    (r : Nat) (ce : Cell) (hc : ce.cbs.all (fun cb => !cb.writes k) = true) :
    Refines k (rowAddCell dw w r ce) (p.step (.rowAddCell r ce)) := by
  have hlen : p.shape.rows.length = w.rows.length := by rw [← hr.shape]; exact shape_rows_length w
  have hcells : (p.shape.row r).cells = (w.row r).cells.map (·.map Cell.geo) := by
    rw [← hr.shape]; exact shape_row_cells w r
  have hshape : (rowAddCell dw w r ce).shape = p.shape.step (.rowAddCell r ce) := by
    rw [← hr.shape]; exact shape_applyOp dw w (.rowAddCell r ce)
  rcases rowAddCell_cases dw k w r ce with ⟨hk, hno⟩ | ⟨cs, hlt, hcs, hk⟩
  · have : p.step (.rowAddCell r ce) = { p with shape := p.shape.step (.rowAddCell r ce) } := by
      simp only [PState.step, hlen]
      split
      · rename_i h
        rw [hcells]
        cases hcc : (w.row r).cells with
        | none => rfl
        | some cs => exact absurd ⟨h, by simp [hcc]⟩ hno
      · rfl
    rw [this]
    exact refines_of_keeps hr hq hk hshape rfl rfl
  · have : p.step (.rowAddCell r ce) =
        { p with shape := p.shape.step (.rowAddCell r ce),
                 val := fun o' k' => if o' = .cell r cs.length then ce.props.get k' else p.val o' k' } := by
      simp only [PState.step, hlen, hlt, if_true, hcells, hcs, Option.map_some, List.length_map]
    rw [this]
    have hql : Quiet k (rowAddLinked w r ce cs) := quiet_rowAddLinked hq hlt hcs ce hc
    refine ⟨hshape, ?_, fun o => ?_⟩
    · rw [hk.ncopies, copies_rowAddLinked]; exact hr.ncopies
    · rw [hk.val hql o, getProp_eq_get, chainOf_rowAddLinked hlt hcs]
      show _ = if o = .cell r cs.length then ce.props.get k else p.val o k
      split
      · rfl
      · rw [← getProp_eq_get]; exact hr.val o

/-! ### copying -/

theorem refines_copyCell (dw : Measure) {k : Key} {w : World} {p : PState} (hr : Refines k w p) (r c : Nat) :
    Refines k (applyOp dw w (.copyCell r c)) (p.step (.copyCell r c)) := by
  have hw : p.shape.width r = w.shape.width r := by rw [hr.shape]
  simp only [applyOp, PState.step]
  cases hce : w.cell? r c with
  | none =>
    have : ¬ c < p.shape.width r := by rw [hw, ← cell?_isSome_iff, hce]; simp
    simp only [this, if_false]; exact hr
  | some ce =>
    have : c < p.shape.width r := by rw [hw, ← cell?_isSome_iff, hce]; rfl
    simp only [this, if_true]
    refine ⟨hr.shape, by simp [hr.ncopies], fun o => ?_⟩
    rw [getProp_eq_get, chainOf_copy]
    show _ = if o = .copy p.ncopies then p.val (.cell r c) k else p.val o k
    rw [← hr.ncopies]
    split
    · rw [← hr.val, getProp_eq_get]; simp [World.chainOf, hce]
    · rw [← getProp_eq_get]; exact hr.val o

/-! ### every operation -/

theorem allNodup_applyOp (dw : Measure) {w : World} (hn : AllNodup w) (op : BuildOp) (hc : op.cellOk = true) :
    AllNodup (applyOp dw w op) := by
  by_cases hp : plain op = true
  · exact (keeps_applyOp dw (.user 0) w op hp).nodup hn
  · cases op with
    | setProp o k v => exact allNodup_setProp hn o k v
    | regCb o tm tg cb =>
      simp only [applyOp]
      cases e : registerCb w o tm tg cb with
      | none => exact hn
      | some w' => intro o'; rw [Option.getD_some, chainOf_registerCb e]; exact hn o'
    | copyCell r c =>
      simp only [applyOp]
      cases hce : w.cell? r c with
      | none => exact hn
      | some ce =>
        intro o
        simp only [chainOf_copy]
        split
        · have := hn (.cell r c)
          simpa [World.chainOf, hce] using this
        · exact hn o
    | rowAddCell r ce =>
      have hc' : ce.props.keys.Nodup := by simpa [BuildOp.cellOk] using hc
      rcases rowAddCell_cases dw (.user 0) w r ce with ⟨hk, _⟩ | ⟨cs, hlt, hcs, hk⟩
      · exact hk.nodup hn
      · exact hk.nodup (allNodup_rowAddLinked hn hlt hcs ce hc')
    | _ => simp [plain] at hp

theorem quiet_applyOp (dw : Measure) {k : Key} {w : World} (hq : Quiet k w) (op : BuildOp)
    (hop : op.cbsAll (fun cb => !cb.writes k) = true) : Quiet k (applyOp dw w op) := by
  by_cases hp : plain op = true
  · exact Keeps.quiet (keeps_applyOp dw k w op hp) hq
  · cases op with
    | setProp o k' v => exact quiet_of_cbs hq (cbSet_setProp w o k' v)
    | regCb o tm tg cb =>
      simp only [applyOp]
      cases e : registerCb w o tm tg cb with
      | none => exact hq
      | some w' =>
        rw [Option.getD_some]
        exact quiet_registerCb hq (by simpa [BuildOp.cbsAll] using hop) e
    | copyCell r c =>
      simp only [applyOp]
      cases hce : w.cell? r c with
      | none => exact hq
      | some ce =>
        intro s tm cb hcb
        simp only [World.cbsAt, cbSet_copy] at hcb
        split at hcb
        · refine hq (.cellOwn r c) tm cb ?_
          simpa [World.cbsAt, World.cbSet, hce] using hcb
        · exact hq s tm cb hcb
    | rowAddCell r ce =>
      have hc' : ce.cbs.all (fun cb => !cb.writes k) = true := by simpa [BuildOp.cbsAll] using hop
      rcases rowAddCell_cases dw k w r ce with ⟨hk, _⟩ | ⟨cs, hlt, hcs, hk⟩
      · exact Keeps.quiet hk hq
      · exact Keeps.quiet hk (quiet_rowAddLinked hq hlt hcs ce hc')
    | _ => simp [plain] at hp

theorem refines_applyOp (dw : Measure) {k : Key} {w : World} {p : PState} (hr : Refines k w p) (hq : Quiet k w)
    (hn : AllNodup w) (op : BuildOp) (hop : op.cbsAll (fun cb => !cb.writes k) = true) :
    Refines k (applyOp dw w op) (p.step op) := by
  by_cases hp : plain op = true
  · rw [step_plain p op hp]
    exact refines_of_keeps hr hq (keeps_applyOp dw k w op hp) (by rw [shape_applyOp, hr.shape]) rfl rfl
  · cases op with
    | setProp o k' v => exact refines_setProp hr hn o k' v
    | regCb o tm tg cb =>
      rw [step_regCb]
      simp only [applyOp]
      cases e : registerCb w o tm tg cb with
      | none => exact hr
      | some w' =>
        rw [Option.getD_some]
        refine ⟨by rw [shape_registerCb w w' o tm tg cb e]; exact hr.shape,
          by rw [copies_registerCb e]; exact hr.ncopies, fun o' => ?_⟩
        rw [getProp_eq_get, chainOf_registerCb e, ← getProp_eq_get]; exact hr.val o'
    | copyCell r c => exact refines_copyCell dw hr r c
    | rowAddCell r ce => exact refines_rowAddCell dw hr hq r ce (by simpa [BuildOp.cbsAll] using hop)
    | _ => simp [plain] at hp

/-! ### the empty world -/

theorem chainOf_empty (o : Target) : ({} : World).chainOf o = [] := by
  cases o with
  | table t => rfl
  | column t n => cases n <;> rfl
  | row r => rfl
  | cell r c => rfl
  | copy n => rfl

theorem cbSet_empty (s : CbSlot) : ({} : World).cbSet s = {} := by
  cases s with
  | colSelf t n => cases n <;> rfl
  | colCell t n => cases n <;> rfl
  | _ => rfl

theorem allNodup_empty : AllNodup {} := by
  intro o; rw [chainOf_empty]; exact List.nodup_nil

theorem quiet_empty (k : Key) : Quiet k {} := by
  intro s tm cb hcb
  simp only [World.cbsAt, cbSet_empty] at hcb
  cases tm <;> simp [CbSet.at] at hcb

theorem refines_empty (k : Key) : Refines k {} {} :=
  ⟨rfl, rfl, fun o => by rw [getProp_eq_get, chainOf_empty]; rfl⟩

/-! ### histories -/

theorem allNodup_runFrom (dw : Measure) : ∀ (ops : List BuildOp) (w : World), AllNodup w →
    ops.all BuildOp.cellOk = true → AllNodup (runFrom dw w ops) := by
  intro ops
  induction ops with
  | nil => intro w hn _; exact hn
  | cons op ops ih =>
    intro w hn hc
    simp only [List.all_cons, Bool.and_eq_true] at hc
    exact ih _ (allNodup_applyOp dw hn op hc.1) hc.2

theorem refines_runFrom (dw : Measure) (k : Key) : ∀ (ops : List BuildOp) (w : World) (p : PState),
    Refines k w p → Quiet k w → AllNodup w →
    ops.all (BuildOp.cbsAll (fun cb => !cb.writes k)) = true → ops.all BuildOp.cellOk = true →
    Refines k (runFrom dw w ops) (ops.foldl PState.step p) ∧ Quiet k (runFrom dw w ops) := by
  intro ops
  induction ops with
  | nil => intro w p hr hq _ _ _; exact ⟨hr, hq⟩
  | cons op ops ih =>
    intro w p hr hq hn hop hc
    simp only [List.all_cons, Bool.and_eq_true] at hop hc
    exact ih _ _ (refines_applyOp dw hr hq hn op hop.1) (quiet_applyOp dw hq op hop.1)
      (allNodup_applyOp dw hn op hc.1) hop.2 hc.2

end C12h
end Tab
