/- C12h helper lemmas: callbacks that write the key — invocations replayed as sets, through the
   traversals and the building operations. -/
import Tabmodel.Proofs.C12hSets
set_option linter.unusedSimpArgs false
namespace Tab
open World C13 C13x
namespace C12h

variable (f : Nat → Option (Option Val)) (k : Key)

/-! ### predicates on the callbacks of a world -/

theorem cbsAll_of_cbs {P : Cb → Bool} {w w' : World} (h : CbsAll P w) (e : ∀ s, w'.cbSet s = w.cbSet s) :
    CbsAll P w' := by
  intro s tm
  simp only [World.cbsAt, e s]
  exact h s tm

theorem cbsAll_empty (P : Cb → Bool) : CbsAll P {} := by
  intro s tm cb hcb
  simp only [World.cbsAt, cbSet_empty] at hcb
  cases tm <;> simp [CbSet.at] at hcb

theorem cbsAll_registerCb {P : Cb → Bool} {w w' : World} {o : Target} {tm : Time} {tg : CbTarget} {cb : Cb}
    (hq : CbsAll P w) (hcb : P cb = true) (e : registerCb w o tm tg cb = some w') : CbsAll P w' := by
  by_cases ho : w.hasObj o
  · obtain ⟨s, _, hs⟩ := registerCb_cbSet ho e
    intro s' tm' c hc
    simp only [World.cbsAt, hs s'] at hc
    split at hc
    · rw [CbSet.push_at] at hc
      split at hc
      · rcases List.mem_append.mp hc with h | h
        · exact hq s' tm' c h
        · simp only [List.mem_singleton] at h; subst h; exact hcb
      · exact hq s' tm' c hc
    · exact hq s' tm' c hc
  · rw [registerCb_noobj ho e]; exact hq

theorem cbsAll_rowAddLinked {P : Cb → Bool} {w : World} {r : Nat} {cs : List Cell} (hq : CbsAll P w)
    (hr : r < w.rows.length) (hcs : (w.row r).cells = some cs) (ce : Cell) (hc : ce.cbs.all P = true) :
    CbsAll P (rowAddLinked w r ce cs) := by
  intro s tm cb hcb
  simp only [World.cbsAt, cbSet_rowAddLinked hr hcs] at hcb
  split at hcb
  · exact cbSet_all_at hc tm cb hcb
  · exact hq s tm cb hcb

theorem cbsAll_applyOp (dw : Measure) {P : Cb → Bool} {w : World} (hq : CbsAll P w) (op : BuildOp)
    (hop : op.cbsAll P = true) : CbsAll P (applyOp dw w op) := by
  by_cases hp : plain op = true
  · exact cbsAll_of_cbs hq (keeps_applyOp dw (.user 0) w op hp).cbs
  · cases op with
    | setProp o k' v => exact cbsAll_of_cbs hq (cbSet_setProp w o k' v)
    | regCb o tm tg cb =>
      simp only [applyOp]
      cases e : registerCb w o tm tg cb with
      | none => exact hq
      | some w' => rw [Option.getD_some]; exact cbsAll_registerCb hq hop e
    | copyCell r c =>
      simp only [applyOp]
      cases hce : w.cell? r c with
      | none => exact hq
      | some ce =>
        intro s tm cb hcb
        simp only [World.cbsAt, cbSet_copy] at hcb
        split at hcb
        · refine hq (.cellOwn r c) tm cb ?_
          simpa [World.cbsAt, World.cbSet, hce] using hcb
        · exact hq s tm cb hcb
    | rowAddCell r ce =>
      rcases rowAddCell_cases dw (.user 0) w r ce with ⟨hk, _⟩ | ⟨cs, hlt, hcs, hk⟩
      · exact cbsAll_of_cbs hq hk.cbs
      · exact cbsAll_of_cbs (cbsAll_rowAddLinked hq hlt hcs ce hop) hk.cbs
    | _ => simp [plain] at hp

/-! ### composition -/

theorem silent_of_csame {w' w : World} (h : CSame w' w) : TracksEs f k w w' [] :=
  ⟨h.cbs, h.ncopies, allNodup_csame h, by rw [h.events, List.append_nil],
   fun _ _ o => by
     show w'.getProp o k = w.getProp o k
     rw [getProp_eq_get, getProp_eq_get, h.chain]⟩

theorem silent_refl (w : World) : TracksEs f k w w [] := silent_of_csame f k (CSame.refl w)

theorem silent_trans {a b c : World} {es : List Event} (h1 : TracksEs f k a b []) (h2 : TracksEs f k b c es) :
    TracksEs f k a c es :=
  ⟨fun s => (h2.cbs s).trans (h1.cbs s), h2.ncopies.trans h1.ncopies, fun h => h2.nodup (h1.nodup h),
   by rw [h2.events, h1.events, List.append_nil],
   fun hw hn o => by
     have hb : ∀ o, b.getProp o k = a.getProp o k := fun o => h1.val hw hn o
     rw [h2.val (cbsAll_of_cbs hw h1.cbs) (h1.nodup hn) o]
     have : (fun o => b.getProp o k) = (fun o => a.getProp o k) := funext hb
     rw [this]⟩

/-! ### one invocation -/

theorem hasObj_events (w : World) (es : List Event) (o : Target) :
    ({ w with events := es } : World).hasObj o ↔ w.hasObj o := by
  cases o <;> exact Iff.rfl

theorem getProp_invokeOne_writer_self (dw : Measure) {w : World} (hn : AllNodup w) (id : Nat) (v : Option Val)
    (tgt : Target) (tk : Taker) (h : w.hasObj tgt) :
    (invokeOne dw w (.setProp id k v) tgt tk).getProp tgt k = v := by
  show (World.setProp _ tgt k v).getProp tgt k = v
  rw [getProp_setProp_self _ _ _ _ ((hasObj_events w _ tgt).mpr h)]
  refine chain_get_set _ k v (.inr ?_)
  rw [chainOf_events]; exact hn tgt

theorem getProp_invokeOne_writer_noobj (dw : Measure) (w : World) (id : Nat) (k' : Key) (v : Option Val)
    (tgt : Target) (tk : Taker) (h : ¬ w.hasObj tgt) (o : Target) :
    (invokeOne dw w (.setProp id k' v) tgt tk).getProp o k = w.getProp o k := by
  show (World.setProp _ tgt k' v).getProp o k = _
  rw [setProp_noobj _ tgt k' v (fun hh => h ((hasObj_events w _ tgt).mp hh)), getProp_events]

theorem fold_nonwriter {cb : Cb} (hag : cb.agrees f k = true) (hwr : cb.writes k = false) (has : Target → Bool)
    (m : Target → Option Val) (tgt : Target) : (userEvents [cb] tgt).foldl (evApply f has) m = m := by
  cases cb with
  | log id =>
    have hf : f id = none := by simpa [Cb.agrees] using hag
    simp [userEvents, userIds, Cb.id?, evApply, hf]
  | fail id e =>
    have hf : f id = none := by simpa [Cb.agrees] using hag
    simp [userEvents, userIds, Cb.id?, evApply, hf]
  | setProp id k' v =>
    have hk : ¬ k' = k := by simpa [Cb.writes] using hwr
    have hf : f id = none := by simpa [Cb.agrees, hk] using hag
    simp [userEvents, userIds, Cb.id?, evApply, hf]
  | dimSetter => rfl
  | widthSetter => rfl

/-- the invariant carried through a traversal from `w0` -/
def JW (w0 : World) (w' : World) (es : List Event) : Prop :=
  AllNodup w' ∧ ∀ o, w'.getProp o k = es.foldl (evApply f w0.has) (fun o => w0.getProp o k) o

theorem stepInv_track (dw : Measure) {w0 : World} (hw : CbsAll (Cb.agrees f k) w0) :
    StepInv dw w0 (JW f k w0) := by
  intro w' es cb tgt tk hsame hmem hJ
  obtain ⟨hn, hv⟩ := hJ
  obtain ⟨s, tm, hcb⟩ := hmem
  have hag := hw s tm cb hcb
  refine ⟨allNodup_invokeOne dw hn cb tgt tk, fun o => ?_⟩
  rw [List.foldl_append]
  cases hwr : cb.writes k with
  | false =>
    rw [fold_nonwriter f k hag hwr, getProp_invokeOne_not_writes dw w' cb tgt tk k hwr o]
    exact hv o
  | true =>
    cases cb with
    | setProp id k' v =>
      have hk : k' = k := by simpa [Cb.writes] using hwr
      subst hk
      have hf : f id = some v := by simpa [Cb.agrees] using hag
      have hev : userEvents [Cb.setProp id k' v] tgt = [⟨id, tgt⟩] := rfl
      rw [hev]
      simp only [List.foldl_cons, List.foldl_nil, evApply, hf]
      by_cases hobj : w0.hasObj tgt
      · have hh : w0.has tgt = true := by simp [World.has, hobj]
        simp only [hh, if_true]
        by_cases e : o = tgt
        · subst e
          simp only [if_true]
          exact getProp_invokeOne_writer_self k' dw hn id v o tk (hasObj_same hsame o hobj)
        · rw [if_neg e, getProp_invokeOne_setProp_other dw w' id k' v tgt tk o k' (fun e' => e e'.symm)]
          exact hv o
      · have hh : w0.has tgt = false := by simp [World.has, hobj]
        simp only [hh]
        rw [getProp_invokeOne_writer_noobj k' dw w' id k' v tgt tk
          (fun h => hobj (hasObj_same (same_symm hsame) tgt h)) o]
        exact hv o
    | log id => simp [Cb.writes] at hwr
    | fail id e => simp [Cb.writes] at hwr
    | dimSetter => simp [Cb.agrees, hwr] at hag
    | widthSetter => simp [Cb.agrees, hwr] at hag

theorem has_same {w' w : World} (h : SameSkeleton w' w) : w'.has = w.has := by
  funext o
  simp only [World.has]
  exact decide_eq_decide.mpr ⟨hasObj_same (same_symm h) o, hasObj_same h o⟩

theorem tracks_of_any (dw : Measure) {w0 w' : World} {es : List Event}
    (h : ∀ J : World → List Event → Prop, StepInv dw w0 J → J w0 [] → Ext w0 J w' es) : TracksEs f k w0 w' es := by
  have h1 := h (fun _ _ => True) (fun _ _ _ _ _ _ _ _ => trivial) trivial
  refine ⟨h1.same.cbs, h1.same.ncopies, fun hn => (h _ (stepInv_nodup dw w0) hn).inv, h1.events, fun hw hn o => ?_⟩
  have h2 := (h _ (stepInv_track f k dw hw) ⟨hn, fun _ => rfl⟩).inv
  rw [has_same h1.same]
  exact h2.2 o

/-! ### the operations -/

variable (dw : Measure)

theorem tracks_render (w : World) (t : Nat) : Tracks f k w (invokeRenderCallbacks dw w t) :=
  ⟨_, tracks_of_any f k dw (fun _ hJ h0 => invokeRenderCallbacks_any dw hJ t h0)⟩

theorem tracks_addRow (w : World) (t r : Nat) : Tracks f k w (addRow dw w t r) :=
  ⟨_, silent_trans f k (silent_of_csame f k (csame_addRowLinked w t r))
    (tracks_of_any f k dw (fun _ hJ h0 => addRow_any dw w t r hJ h0))⟩

theorem tracksEs_rowAddCell_linked {w : World} {r : Nat} {cs : List Cell} (hcs : (w.row r).cells = some cs)
    (ce : Cell) : TracksEs f k (rowAddLinked w r ce cs) (rowAddCell dw w r ce)
      (userEvents (w.cbsAt (.rowCell r) .add) (.cell r cs.length)) :=
  tracks_of_any f k dw (fun _ hJ h0 => rowAddCell_any dw w r ce cs hcs hJ h0)

theorem tracks_rowAddCell_plain (w : World) (r : Nat) (ce : Cell) (h0 : ce.props = []) (h1 : ce.cbs = {}) :
    Tracks f k w (rowAddCell dw w r ce) := by
  cases hcs : (w.row r).cells with
  | none => rw [rowAddCell_nil dw w r ce hcs]; exact ⟨_, silent_of_csame f k (csame_addErrTo w _ _)⟩
  | some cs =>
    exact ⟨_, silent_trans f k (silent_of_csame f k (csame_rowAddLinked_plain hcs ce h0 h1))
      (tracksEs_rowAddCell_linked f k dw hcs ce)⟩

/-- `Row.Add(NewCell(item))` on a row without add-time cell callbacks logs nothing -/
theorem silent_rowAddCell_plain (w : World) (r : Nat) (ce : Cell) (h0 : ce.props = []) (h1 : ce.cbs = {})
    (hcb : w.cbsAt (.rowCell r) .add = []) : TracksEs f k w (rowAddCell dw w r ce) [] := by
  cases hcs : (w.row r).cells with
  | none => rw [rowAddCell_nil dw w r ce hcs]; exact silent_of_csame f k (csame_addErrTo w _ _)
  | some cs =>
    have := tracksEs_rowAddCell_linked f k dw hcs ce
    rw [hcb] at this
    exact silent_trans f k (silent_of_csame f k (csame_rowAddLinked_plain hcs ce h0 h1)) this

theorem silent_rowAddMany (r : Nat) : ∀ (is : List Nat) (w : World), w.cbsAt (.rowCell r) .add = [] →
    TracksEs f k w (rowAddMany dw r is w) [] := by
  intro is
  induction is with
  | nil => intro w _; exact silent_refl f k w
  | cons i is ih =>
    intro w hcb
    have h1 : TracksEs f k w (rowAdd dw w r i) [] :=
      silent_rowAddCell_plain f k dw w r _ (newCell_props dw i _) (newCell_cbs dw i _) hcb
    refine silent_trans f k h1 (ih _ ?_)
    simp only [World.cbsAt, h1.cbs]
    exact hcb

theorem cbsAt_newRow_fresh (w : World) (rw : Row) (h : rw.cellCbs = {}) :
    (w.newRow rw).1.cbsAt (.rowCell w.rows.length) .add = [] := by
  simp only [World.cbsAt, World.cbSet, World.newRow, row_append, if_true, h]
  rfl

theorem tracks_addRowItems (w : World) (t : Nat) (items : List Nat) : Tracks f k w (w.addRowItems dw t items).1 := by
  show Tracks f k w (addRow dw (rowAddMany dw w.rows.length items (w.newRow {}).1) t w.rows.length)
  obtain ⟨es, h⟩ := tracks_addRow f k dw (rowAddMany dw w.rows.length items (w.newRow {}).1) t w.rows.length
  exact ⟨es, silent_trans f k (silent_of_csame f k (csame_newRow_plain w))
    (silent_trans f k (silent_rowAddMany f k dw _ items _ (cbsAt_newRow_fresh w {} rfl)) h)⟩

theorem tracks_appendNewRow (w : World) (t : Nat) : Tracks f k w (w.appendNewRow dw t).1 := by
  show Tracks f k w (addRow dw (w.newRow {}).1 t w.rows.length)
  obtain ⟨es, h⟩ := tracks_addRow f k dw (w.newRow {}).1 t w.rows.length
  exact ⟨es, silent_trans f k (silent_of_csame f k (csame_newRow_plain w)) h⟩

theorem tracks_addHeaders (w : World) (t : Nat) (items : List Nat) : Tracks f k w (addHeaders dw w t items) := by
  rw [addHeaders_eq]
  extract_lets w1 hr w2 w3 w4 w5
  have h1 : TracksEs f k w w1 [] := silent_of_csame f k (csame_resize w t _)
  have h2 : TracksEs f k w1 w2 [] := silent_of_csame f k (csame_newRow w1 { ec := .table t } rfl rfl rfl rfl)
  have h3 : TracksEs f k w2 w3 [] :=
    silent_rowAddMany f k dw hr items w2 (cbsAt_newRow_fresh w1 { ec := .table t } rfl)
  have h4 : TracksEs f k w3 w4 [] :=
    silent_of_csame f k (csame_modTable_fields w3 t (fun tb => { tb with header := some hr }) (fun _ => rfl)
      (fun _ => rfl) (fun _ => rfl) (fun _ => rfl) (fun _ => rfl))
  have h5 : TracksEs f k w4 (addTimeCells dw t hr (fun _ => Taker.table t) (w5.rowCells hr).length 0 w5)
      ([] ++ userEvents (w4.cbsAt (.tableRow t) .add) (.row hr) ++
        addCellsExpectedAny w4 t hr 0 (w5.rowCells hr).length) := by
    refine tracks_of_any f k dw (fun J hJ h0 => ?_)
    have e0 : Ext w4 J w4 [] := ⟨same_refl _, by simp, h0⟩
    have e1 : Ext w4 J w5 ([] ++ userEvents (w4.cbsAt (.tableRow t) .add) (.row hr)) :=
      ext_invoke_slot dw hJ e0 (.tableRow t) .add (fun _ => rfl) _ _
    exact addTimeCells_any dw hJ t hr (fun _ => Taker.table t) _ 0 _ _ e1
  exact ⟨_, silent_trans f k h1 (silent_trans f k h2 (silent_trans f k h3 (silent_trans f k h4 h5)))⟩

theorem tracks_applyOp (w : World) (op : BuildOp) (h : plain op = true) : Tracks f k w (applyOp dw w op) := by
  cases op with
  | newTable => exact ⟨_, silent_of_csame f k (csame_newTable w)⟩
  | addHeaders t items => exact tracks_addHeaders f k dw w t items
  | addRowItems t items => exact tracks_addRowItems f k dw w t items
  | newRow => exact ⟨_, silent_of_csame f k (csame_newRow w {} rfl rfl rfl rfl)⟩
  | zeroRow => exact ⟨_, silent_of_csame f k (csame_newRow w { cells := none } rfl rfl rfl rfl)⟩
  | appendNewRow t => exact tracks_appendNewRow f k dw w t
  | rowAdd r i => exact tracks_rowAddCell_plain f k dw w r _ (newCell_props dw i _) (newCell_cbs dw i _)
  | addRow t r => exact tracks_addRow f k dw w t r
  | addSeparator t => exact ⟨_, silent_of_csame f k (csame_addSeparator w t)⟩
  | addErr tk e => exact ⟨_, silent_of_csame f k (csame_addErrTo w tk e)⟩
  | setItems its => exact ⟨_, silent_of_csame f k (csame_items w its)⟩
  | updateCell r c => exact ⟨_, silent_of_csame f k (csame_updateCell dw w r c)⟩
  | render t => exact tracks_render f k dw w t
  | setProp o k v => simp [plain] at h
  | regCb o tm tg cb => simp [plain] at h
  | copyCell r c => simp [plain] at h
  | rowAddCell r ce => simp [plain] at h

end C12h
end Tab
