/- C13x helper lemmas: what a callback invocation does to the properties read through the world. -/
import Tabmodel.Proofs.C13xRender
import Tabmodel.Proofs.C13Live
import Tabmodel.Proofs.C13Register
import Tabmodel.Proofs.C13Unique
set_option linter.unusedSimpArgs false
namespace Tab
open World C13
namespace C13x

/-! ### `setProp` on another object or another key is invisible -/

theorem getProp_setProp_frame (w : World) (o : Target) (k' : Key) (v : Option Val) (tgt0 : Target) (k : Key)
    (h : o ≠ tgt0 ∨ k' ≠ k) : (w.setProp o k' v).getProp tgt0 k = w.getProp tgt0 k := by
  cases o with
  | table t =>
    cases tgt0 with
    | table t' =>
      simp only [World.getProp, World.setProp, table_modTable]
      split
      · rename_i hh
        obtain ⟨rfl, _⟩ := hh
        have hk : k' ≠ k := by
          rcases h with h | h
          · exact absurd rfl h
          · exact h
        exact chain_get_set_ne _ v hk
      · rfl
    | column t' n =>
      have := column?_modTable_of w t (fun tb => { tb with props := tb.props.set k' v }) (by intro _; rfl) t' n
      simp only [World.getProp, World.setProp, this]
    | row r => rfl
    | cell r c => rfl
    | copy n => rfl
  | column t n =>
    cases tgt0 with
    | table t' =>
      simp only [World.getProp, World.setProp, World.modColumn, table_modTable]
      split <;> rfl
    | column t' n' =>
      simp only [World.getProp, World.setProp, column?_modColumn]
      split
      · rename_i hh
        obtain ⟨rfl, _, rfl⟩ := hh
        have hk : k' ≠ k := by
          rcases h with h | h
          · exact absurd rfl h
          · exact h
        cases w.column? t n <;> simp [chain_get_set_ne _ v hk]
      · rfl
    | row r => rfl
    | cell r c => rfl
    | copy n => rfl
  | row r =>
    cases tgt0 with
    | table t' => rfl
    | column t' n' => rfl
    | row r' =>
      simp only [World.getProp, World.setProp, row_modRow]
      split
      · rename_i hh
        obtain ⟨rfl, _⟩ := hh
        have hk : k' ≠ k := by
          rcases h with h | h
          · exact absurd rfl h
          · exact h
        exact chain_get_set_ne _ v hk
      · rfl
    | cell r' c =>
      have := cell?_modRow_of w r (fun rw => { rw with props := rw.props.set k' v }) (by intro _; rfl) r' c
      simp only [World.getProp, World.setProp, this]
    | copy n => rfl
  | cell r c =>
    cases tgt0 with
    | table t' => rfl
    | column t' n' => rfl
    | row r' =>
      simp only [World.getProp, World.setProp, World.modCell, row_modRow]
      split <;> rfl
    | cell r' c' =>
      simp only [World.getProp, World.setProp, cell?_modCell]
      split
      · rename_i hh
        obtain ⟨rfl, rfl⟩ := hh
        have hk : k' ≠ k := by
          rcases h with h | h
          · exact absurd rfl h
          · exact h
        cases w.cell? r c <;> simp [chain_get_set_ne _ v hk]
      · rfl
    | copy n => rfl
  | copy n =>
    cases tgt0 with
    | table t' => rfl
    | column t' n' => rfl
    | row r' => rfl
    | cell r' c' => rfl
    | copy n' =>
      simp only [World.getProp, World.setProp, List.getElem?_modify]
      split
      · rename_i hh
        subst hh
        have hk : k' ≠ k := by
          rcases h with h | h
          · exact absurd rfl h
          · exact h
        cases w.copies[n]? <;> simp [chain_get_set_ne _ v hk]
      · simp

theorem getProp_events (w : World) (es : List Event) (o : Target) (k : Key) :
    ({ w with events := es } : World).getProp o k = w.getProp o k := by
  cases o <;> rfl

theorem getProp_addErrTo (w : World) (tk : Taker) (e : Nat) (o : Target) (k : Key) :
    (w.addErrTo tk e).getProp o k = w.getProp o k := by
  have hT : ∀ (t : Nat) (f : Table → Table), (∀ tb, (f tb).props = tb.props) → (∀ tb, (f tb).columns = tb.columns) →
      (w.modTable t f).getProp o k = w.getProp o k := by
    intro t f h1 h2
    cases o with
    | table t' => simp only [World.getProp, table_modTable]; split <;> simp [h1]
    | column t' n => simp only [World.getProp, column?_modTable_of w t f h2]
    | row r => rfl
    | cell r c => rfl
    | copy n => rfl
  have hR : ∀ (r : Nat) (f : Row → Row), (∀ rw, (f rw).props = rw.props) → (∀ rw, (f rw).cells = rw.cells) →
      (w.modRow r f).getProp o k = w.getProp o k := by
    intro r f h1 h2
    cases o with
    | table t' => rfl
    | column t' n => rfl
    | row r' => simp only [World.getProp, row_modRow]; split <;> simp [h1]
    | cell r' c => simp only [World.getProp, cell?_modRow_of w r f h2]
    | copy n => rfl
  unfold World.addErrTo
  cases tk with
  | drop => rfl
  | table t => exact hT t _ (by intro _; rfl) (by intro _; rfl)
  | rowOwn r => exact hR r _ (by intro rw; split <;> rfl) (by intro rw; split <;> rfl)
  | rowLazy r =>
    dsimp only
    split
    · exact hR r _ (by intro _; rfl) (by intro _; rfl)
    · exact hR r _ (by intro _; rfl) (by intro _; rfl)
    · exact hT _ _ (by intro _; rfl) (by intro _; rfl)

/-- a callback that cannot write `k` leaves `k` alone on every object -/
theorem getProp_invokeOne_not_writes (dw : Measure) (w : World) (cb : Cb) (tgt : Target) (tk : Taker)
    (k : Key) (hw : cb.writes k = false) (o : Target) :
    (invokeOne dw w cb tgt tk).getProp o k = w.getProp o k := by
  cases cb with
  | log id => exact getProp_events w _ o k
  | setProp id k' v =>
    have hk : k' ≠ k := by simpa [Cb.writes] using hw
    show (World.setProp _ tgt k' v).getProp o k = _
    rw [getProp_setProp_frame _ _ _ _ _ _ (.inr hk), getProp_events]
  | fail id e =>
    show (World.addErrTo _ tk e).getProp o k = _
    rw [getProp_addErrTo, getProp_events]
  | dimSetter =>
    have h1 : Key.ttDims ≠ k := by intro e; subst e; simp [Cb.writes] at hw
    have h2 : Key.ttLines ≠ k := by intro e; subst e; simp [Cb.writes] at hw
    unfold World.invokeOne
    cases tgt with
    | cell r c =>
      dsimp only
      cases w.cell? r c with
      | none => rfl
      | some ce =>
        dsimp only
        rw [getProp_setProp_frame _ _ _ _ _ _ (.inr h2), getProp_setProp_frame _ _ _ _ _ _ (.inr h1)]
    | table t => exact getProp_addErrTo _ _ _ _ _
    | column t n => exact getProp_addErrTo _ _ _ _ _
    | row r => exact getProp_addErrTo _ _ _ _ _
    | copy n => exact getProp_addErrTo _ _ _ _ _
  | widthSetter =>
    have h1 : Key.mdWidth ≠ k := by intro e; subst e; simp [Cb.writes] at hw
    unfold World.invokeOne
    cases tgt with
    | cell r c =>
      dsimp only
      cases w.cell? r c with
      | none => rfl
      | some ce =>
        dsimp only
        rw [getProp_setProp_frame _ _ _ _ _ _ (.inr h1)]
    | table t => exact getProp_addErrTo _ _ _ _ _
    | column t n => exact getProp_addErrTo _ _ _ _ _
    | row r => exact getProp_addErrTo _ _ _ _ _
    | copy n => exact getProp_addErrTo _ _ _ _ _

/-! ### existence of objects depends on the skeleton only -/

theorem hasObj_same {w' w : World} (h : SameSkeleton w' w) (o : Target) (ho : w.hasObj o) : w'.hasObj o := by
  have hT : w'.tables.length = w.tables.length := by
    have := congrArg (fun s => s.tables.length) h.shape
    simpa using this
  have hR : w'.rows.length = w.rows.length := by
    have := congrArg (fun s => s.rows.length) h.shape
    simpa using this
  cases o with
  | table t => show t < w'.tables.length; rw [hT]; exact ho
  | column t n =>
    have ho' : t < w.tables.length ∧ n < (w.table t).columns.length := ho
    show t < w'.tables.length ∧ n < (w'.table t).columns.length
    rw [hT, same_ncolrecs h t]; exact ho'
  | row r => show r < w'.rows.length; rw [hR]; exact ho
  | cell r c =>
    have ho' : (w.cell? r c).isSome = true := ho
    show (w'.cell? r c).isSome = true
    have := congrArg Option.isSome (same_cell_geo h r c)
    simpa [ho'] using this
  | copy n => show n < w'.copies.length; rw [h.ncopies]; exact ho

/-- the writer makes its value readable on its (existing) target -/
theorem getProp_invokeOne_setProp (dw : Measure) (w : World) (id : Nat) (k : Key) (v : Val) (tgt : Target)
    (tk : Taker) (h : w.hasObj tgt) :
    (invokeOne dw w (.setProp id k (some v)) tgt tk).getProp tgt k = some v := by
  have h' : ({ w with events := w.events ++ [⟨id, tgt⟩] } : World).hasObj tgt := by cases tgt <;> exact h
  show (World.setProp _ tgt k (some v)).getProp tgt k = some v
  rw [getProp_setProp_self _ _ _ _ h']
  exact chain_get_set_some _ k v

/-- ... and nothing on any other object -/
theorem getProp_invokeOne_setProp_other (dw : Measure) (w : World) (id : Nat) (k' : Key) (v : Option Val)
    (tgt : Target) (tk : Taker) (o : Target) (k : Key) (h : tgt ≠ o) :
    (invokeOne dw w (.setProp id k' v) tgt tk).getProp o k = w.getProp o k := by
  show (World.setProp _ tgt k' v).getProp o k = _
  rw [getProp_setProp_frame _ _ _ _ _ _ (.inl h), getProp_events]

/-! ### through a list of callbacks on one target -/

theorem invoke_append (dw : Measure) (w : World) (a b : List Cb) (tgt : Target) (tk : Taker) :
    invoke dw w (a ++ b) tgt tk = invoke dw (invoke dw w a tgt tk) b tgt tk := by
  simp [World.invoke, List.foldl_append]

theorem same_invoke (dw : Measure) (w : World) (cbs : List Cb) (tgt : Target) (tk : Taker) :
    SameSkeleton (invoke dw w cbs tgt tk) w := by
  induction cbs generalizing w with
  | nil => exact same_refl w
  | cons cb cbs ih =>
    simp only [World.invoke, List.foldl_cons]
    exact same_trans (ih _) (same_invokeOne dw w cb tgt tk)

theorem getProp_invoke_not_writes (dw : Measure) (w : World) (cbs : List Cb) (tgt : Target) (tk : Taker)
    (k : Key) (hw : ∀ cb ∈ cbs, cb.writes k = false) (o : Target) :
    (invoke dw w cbs tgt tk).getProp o k = w.getProp o k := by
  induction cbs generalizing w with
  | nil => rfl
  | cons cb cbs ih =>
    simp only [World.invoke, List.foldl_cons]
    have := ih (invokeOne dw w cb tgt tk) (fun c hc => hw c (by simp [hc]))
    simp only [World.invoke] at this
    rw [this, getProp_invokeOne_not_writes dw w cb tgt tk k (hw cb (by simp))]

/-- The last callback of the list that may write `k` is `.setProp id k (some v)`: afterwards `k` reads `v`. -/
theorem getProp_invoke_last_writer (dw : Measure) (w : World) (pre post : List Cb) (id : Nat) (k : Key) (v : Val)
    (tgt : Target) (tk : Taker) (h : w.hasObj tgt) (hpost : ∀ cb ∈ post, cb.writes k = false) :
    (invoke dw w (pre ++ [.setProp id k (some v)] ++ post) tgt tk).getProp tgt k = some v := by
  rw [invoke_append, invoke_append, getProp_invoke_not_writes dw _ post tgt tk k hpost]
  have h1 : (invoke dw w pre tgt tk).hasObj tgt := hasObj_same (same_invoke dw w pre tgt tk) tgt h
  exact getProp_invokeOne_setProp dw _ id k v tgt tk h1

/-! ### through a whole traversal: the sole writer of `k` -/

/-- after a prefix of a traversal with events `es`: `k` reads `v` on every existing object the writer was
    invoked on, and is untouched on every object it was not invoked on -/
def LiveInv (w0 : World) (id : Nat) (k : Key) (v : Val) (w' : World) (es : List Event) : Prop :=
  (∀ o, (⟨id, o⟩ : Event) ∈ es → w0.hasObj o → w'.getProp o k = some v) ∧
  (∀ o, (⟨id, o⟩ : Event) ∉ es → w'.getProp o k = w0.getProp o k)

theorem liveInv_init (w0 : World) (id : Nat) (k : Key) (v : Val) : LiveInv w0 id k v w0 [] :=
  ⟨fun _ h => by simp at h, fun _ _ => rfl⟩

theorem liveInv_step (dw : Measure) {w0 : World} {id : Nat} {k : Key} {v : Val} (hs : SoleWriter w0 id k v) :
    StepInv dw w0 (LiveInv w0 id k v) := by
  intro w' es cb tgt tk hsame hmem hJ
  obtain ⟨s, tm, hcb⟩ := hmem
  by_cases hw : cb.id? = some id ∨ cb.writes k = true
  · have hcb' := hs s tm cb hcb hw
    subst hcb'
    have hev : userEvents [Cb.setProp id k (some v)] tgt = [⟨id, tgt⟩] := rfl
    rw [hev]
    refine ⟨fun o ho hobj => ?_, fun o ho => ?_⟩
    · by_cases hot : tgt = o
      · subst hot
        exact getProp_invokeOne_setProp dw w' id k v tgt tk (hasObj_same hsame tgt hobj)
      · rw [getProp_invokeOne_setProp_other dw w' id k (some v) tgt tk o k hot]
        refine hJ.1 o ?_ hobj
        simp only [List.mem_append, List.mem_singleton, Event.mk.injEq, true_and] at ho
        rcases ho with ho | ho
        · exact ho
        · exact absurd ho.symm hot
    · have hne : tgt ≠ o := by
        intro e; subst e; exact ho (by simp)
      rw [getProp_invokeOne_setProp_other dw w' id k (some v) tgt tk o k hne]
      exact hJ.2 o (fun hm => ho (by simp [hm]))
  · have h1 : cb.id? ≠ some id := fun e => hw (.inl e)
    have h2 : cb.writes k = false := by
      cases hb : cb.writes k with
      | false => rfl
      | true => exact absurd (.inr hb) hw
    have hev : ∀ o, (⟨id, o⟩ : Event) ∈ es ++ userEvents [cb] tgt ↔ (⟨id, o⟩ : Event) ∈ es := by
      intro o
      rw [userEvents_one]
      cases hid : cb.id? with
      | none => simp
      | some i =>
        have : id ≠ i := fun e => h1 (by rw [hid, e])
        simp [this]
    refine ⟨fun o ho hobj => ?_, fun o ho => ?_⟩
    · rw [getProp_invokeOne_not_writes dw w' cb tgt tk k h2]
      exact hJ.1 o ((hev o).mp ho) hobj
    · rw [getProp_invokeOne_not_writes dw w' cb tgt tk k h2]
      exact hJ.2 o (fun hm => ho ((hev o).mpr hm))

theorem soleWriterB_sound {w : World} {id : Nat} {k : Key} {v : Val} (h : soleWriterB w id k v = true) :
    SoleWriter w id k v := by
  intro s tm cb hcb hw
  by_cases hs : s ∈ w.cbSlots
  · simp only [soleWriterB, List.all_eq_true] at h
    have := h s hs tm (mem_allTimes tm) cb hcb
    simp only [Bool.or_eq_true, Bool.not_eq_true', beq_iff_eq] at this
    rcases this with h' | h'
    · rcases hw with hw | hw
      · simp [hw] at h'
      · simp [hw] at h'
    · exact h'
  · have : w.cbsAt s tm = [] := by
      simp only [World.cbsAt, cbSet_of_not_mem_slots hs]
      cases tm <;> rfl
    rw [this] at hcb
    simp at hcb

end C13x
end Tab
