/-
  C13x — specification vocabulary for the callback-kind-independent form of C13 (definitions only).

  `userEvents` is `logEvents` for EVERY user callback (`.log id`, `.setProp id _ _`, `.fail id _`; the
  two measuring callbacks leave no event); `expectedRenderAny` &c. are `expectedRender` &c. with
  `userEvents` in place of `logEvents`.  Slots, `cbsAt`, `colCellAt`, `renderRows`, `renderTargets`,
  `addRowLinked`, ... are those of `C13Spec.lean`.
-/
import Tabmodel.Proofs.C13Spec
import Tabmodel.Spec.World
namespace Tab

/-- ids of the user callbacks of a list, in registration order (`Cb.id?`: none for the measuring ones) -/
def userIds (cbs : List Cb) : List Nat := cbs.filterMap Cb.id?

/-- one event per user callback of the list, in registration order, on `tgt` -/
def userEvents (cbs : List Cb) (tgt : Target) : List Event :=
  (userIds cbs).map (fun id => ⟨id, tgt⟩)

/-! ### render pass -/

def cellExpectedAny (w : World) (t r i : Nat) : List Event :=
  let tgt := Target.cell r i
  userEvents (w.cbsAt (.tableCell t) .pre) tgt ++
  userEvents (colCellAt w r i .pre) tgt ++
  userEvents (w.cbsAt (.rowCell r) .pre) tgt ++
  userEvents (w.cbsAt (.tableCell t) .render) tgt ++
  userEvents (w.cbsAt (.cellOwn r i) .render) tgt ++
  userEvents (w.cbsAt (.rowCell r) .post) tgt ++
  userEvents (colCellAt w r i .post) tgt ++
  userEvents (w.cbsAt (.tableCell t) .post) tgt

def cellsExpectedAny (w : World) (t r i n : Nat) : List Event :=
  (List.range' i n).flatMap (cellExpectedAny w t r)

def rowExpectedAny (w : World) (t r : Nat) : List Event :=
  userEvents (w.cbsAt (.rowSelf r) .pre) (.row r) ++
  (List.range (w.rowCells r).length).flatMap (cellExpectedAny w t r) ++
  userEvents (w.cbsAt (.rowSelf r) .post) (.row r)

def colsExpectedAnyFrom (w : World) (t : Nat) (tm : Time) (i n : Nat) : List Event :=
  (List.range' i n).flatMap (fun j => userEvents (w.cbsAt (.colSelf t j) tm) (.column t j))

def colsExpectedAny (w : World) (t : Nat) (tm : Time) : List Event :=
  (List.range (w.table t).columns.length).flatMap (fun j => userEvents (w.cbsAt (.colSelf t j) tm) (.column t j))

/-- The documented event list of ONE render pass over table `t`, for arbitrary callbacks. -/
def expectedRenderAny (w : World) (t : Nat) : List Event :=
  userEvents (w.cbsAt (.tableSelf t) .pre) (.table t) ++
  colsExpectedAny w t .pre ++
  (renderRows w t).flatMap (rowExpectedAny w t) ++
  colsExpectedAny w t .post ++
  userEvents (w.cbsAt (.tableSelf t) .post) (.table t)

/-- `id` is the id of exactly one user callback of the world: one in slot `s` at time `tm`. -/
def UniqueAny (w : World) (id : Nat) (s : CbSlot) (tm : Time) : Prop :=
  (userIds (w.cbsAt s tm)).count id = 1 ∧
  ∀ s' tm', id ∈ userIds (w.cbsAt s' tm') → s' = s ∧ tm' = tm

/-- decidable check implying `UniqueAny` -/
def uniqueAnyB (w : World) (id : Nat) (s : CbSlot) (tm : Time) : Bool :=
  (userIds (w.cbsAt s tm)).count id == 1 &&
  w.cbSlots.all (fun s' => cbTimes.all (fun tm' =>
    !(userIds (w.cbsAt s' tm')).contains id || (s' == s && tm' == tm)))

/-! ### what a pass cannot change -/

/-- Same callback sets and same structural skeleton (`World.shape`: row lists, header, cell counts,
    `columnNum`/`inRow` of every cell, `inTable`/`rowNum`, `nColumns`, number of column records), same
    number of caller-held cell values.  Properties, error containers and the event log may differ. -/
structure SameSkeleton (w' w : World) : Prop where
  cbs : ∀ s, w'.cbSet s = w.cbSet s
  shape : w'.shape = w.shape
  ncopies : w'.copies.length = w.copies.length

/-! ### add-time -/

def addCellsExpectedAny (w : World) (t r i n : Nat) : List Event :=
  (List.range' i n).flatMap (fun j =>
    userEvents (colCellAt w r j .add) (.cell r j) ++ userEvents (w.cbsAt (.tableCell t) .add) (.cell r j))

/-- add-time events of `AddRow`, evaluated in the linked state (`addRowLinked`) -/
def expectedAddRowAny (w : World) (t r : Nat) : List Event :=
  userEvents (w.cbsAt (.rowSelf r) .add) (.row r) ++
  userEvents (w.cbsAt (.tableRow t) .add) (.row r) ++
  addCellsExpectedAny w t r 0 (w.rowCells r).length

/-- the same for a well-formed row, in terms of the world before the call -/
def expectedAddRowAnyWF (w : World) (t r : Nat) : List Event :=
  userEvents (w.cbsAt (.rowSelf r) .add) (.row r) ++
  userEvents (w.cbsAt (.tableRow t) .add) (.row r) ++
  (List.range (w.rowCells r).length).flatMap (fun j =>
    userEvents (w.cbsAt (.colCell t (j + 1)) .add) (.cell r j) ++
    userEvents (w.cbsAt (.tableCell t) .add) (.cell r j))

def expectedAddHeadersAny (w : World) (t : Nat) (items : List Nat) : List Event :=
  let hr := w.rows.length
  userEvents (w.cbsAt (.tableRow t) .add) (.row hr) ++
  (List.range items.length).flatMap (fun j => userEvents (w.cbsAt (.tableCell t) .add) (.cell hr j))

/-! ### live object, over a whole pass -/

/-- may invoking `cb` write property key `k` on its target?  (`dimSetter` writes texttable's two
    private keys, `widthSetter` markdown's; `.log` and `.fail` write none) -/
def Cb.writes (cb : Cb) (k : Key) : Bool :=
  match cb with
  | .setProp _ k' _ => k' == k
  | .dimSetter => k == .ttDims || k == .ttLines
  | .widthSetter => k == .mdWidth
  | _ => false

/-- `.setProp id k (some v)` is the only callback of the world that carries id `id` or may write `k`. -/
def SoleWriter (w : World) (id : Nat) (k : Key) (v : Val) : Prop :=
  ∀ s tm, ∀ cb ∈ w.cbsAt s tm, (cb.id? = some id ∨ cb.writes k = true) → cb = .setProp id k (some v)

/-- decidable check implying `SoleWriter` -/
def soleWriterB (w : World) (id : Nat) (k : Key) (v : Val) : Bool :=
  w.cbSlots.all (fun s => cbTimes.all (fun tm => (w.cbsAt s tm).all (fun cb =>
    !(cb.id? == some id || cb.writes k) || cb == .setProp id k (some v))))

end Tab
