/-
  C16 helpers, part 5: `apply_local` — every step of the language, called on table `t` with rows in `P`,
  is framed, keeps `Inv`, allocates exactly `nalloc` rows, and its result and observation depend only
  on the agreed part of the world.
-/
import Tabmodel.Proofs.C16Run
namespace Tab
namespace C16
open World

variable {t : Nat} {P I : Nat → Prop}

theorem StepRes.mapObs {β γ : Type} {P' : Nat → Prop} {L' : Nat} {w : World} {F : World → World × β}
    (h : StepRes t P P' I L' w F) (g : β → γ) : StepRes t P P' I L' w (fun w => ((F w).1, g (F w).2)) :=
  ⟨h.frame, h.inv, h.len, fun w₂ ha hl => ⟨(h.dep w₂ ha hl).1, by simp only [(h.dep w₂ ha hl).2]⟩⟩

theorem rd_unit : Rd t P I (fun _ => Obs.unit) (fun _ => True) :=
  ⟨fun _ _ => trivial, fun _ _ _ _ => rfl⟩

theorem rd_renderOut (x : Ext) (wr : Wrapper) (hwr : wr.core = t) :
    Rd t P I (fun w => Obs.rendered (renderTo x w wr).2) (fun _ => True) := by
  refine ⟨fun _ _ => trivial, fun w w₂ h ha => ?_⟩
  subst hwr
  have h1 := ls_invokeRenderCallbacks (t := wr.core) (P := P) (I := I) x.dw w h
  have := view_agree h1.inv (h1.dep w₂ ha)
  simp only [renderTo_out_agree x wr this]

theorem stepRes_addSeparator {w : World} (h : Inv t P I w) :
    StepRes t P (fun r => P r ∨ r = w.rows.length) I (w.rows.length + 1) w
      (fun w => (addSeparator w t, Obs.unit)) := by
  have := (stepRes_alloc (t := t) (P := P) (I := I) (pre := fun w => w)
    (rw0 := { cells := none, isSep := true })
    (post := fun L => seq (fun w => w.modTable t (fun tb => { tb with rows := tb.rows ++ [L] }))
      (rd (fun w => (w.table t).rows.length) (fun n w =>
        w.modRow L (fun rw => { rw with inTable := some t, rowNum := n, ec := .table t }))))
    (LocalStep.id' t P I) (fun _ => rfl) (fun L => ⟨.inl rfl, trivial, fun _ hc => by simp at hc⟩)
    (fun L => LocalStep.seq (ls_modTable _ (fun tb r hr => ?_))
      (LocalStep.rd (rd_tablef (fun tb => tb.rows.length)) (fun n _ =>
        ls_modRow (.inr rfl) _ (fun rw hrw => ⟨.inr rfl, rfl, hrw.cells⟩)))) h).mapObs (fun _ => Obs.unit)
  · exact this
  · rcases hr with hr | hr
    · exact .inl (.inl hr)
    · simp only [List.mem_append, List.mem_singleton] at hr
      rcases hr with hr | rfl
      · exact .inl (.inr hr)
      · exact .inr (.inr rfl)

theorem stepRes_addHeaders (dw : Measure) (items : List Nat) (hi : ∀ i ∈ items, I i) {w : World}
    (h : Inv t P I w) :
    StepRes t P (fun r => P r ∨ r = w.rows.length) I (w.rows.length + 1) w
      (fun w => (addHeaders dw w t items, Obs.unit)) := by
  have := (stepRes_alloc (t := t) (P := P) (I := I)
    (pre := fun w => w.modTable t (fun tb => resizeColumnsAtLeast tb items.length))
    (rw0 := { ec := .table t })
    (post := fun L => seq (fun w => rowAddMany dw L items w)
      (seq (fun w => w.modTable t (fun tb => { tb with header := some L }))
      (seq (rd (fun w => (w.table t).rowCbs.at .add) (fun cbs w => invoke dw w cbs (.row L) (.table t)))
        (rd (fun w => (w.rowCells L).length) (fun len w =>
          addTimeCells dw t L (fun _ => .table t) len 0 w)))))
    (ls_resize _) (fun _ => rfl) (fun L => ⟨.inl rfl, rfl, fun _ hc => by simp at hc⟩)
    (fun L => LocalStep.seq (ls_rowAddMany dw (.inr rfl) items hi)
      (LocalStep.seq (ls_modTable _ (fun tb r hr => ?_))
      (LocalStep.seq (LocalStep.rd (rd_tablef (fun tb => tb.rowCbs.at .add)) (fun cbs _ =>
          ls_invoke dw cbs (tgt := .row L) (.inr rfl) (tk := .table t) rfl))
        (LocalStep.rd (rd_rowf (r := L) (.inr rfl) (fun rw => (rw.cells.getD []).length)) (fun len _ =>
          ls_addTimeCells dw (.inr rfl) (fun _ => Taker.table t)
            ⟨fun _ _ => (rfl : t = t), fun _ _ _ _ => rfl⟩ len 0))))) h).mapObs
      (fun _ => Obs.unit)
  · exact this
  · rcases hr with hr | hr
    · simp only [Option.some.injEq] at hr
      exact .inr (.inr hr.symm)
    · exact .inl (.inr hr)

theorem stepRes_addRowItems (dw : Measure) (items : List Nat) (hi : ∀ i ∈ items, I i) {w : World}
    (h : Inv t P I w) :
    StepRes t P (fun r => P r ∨ r = w.rows.length) I (w.rows.length + 1) w
      (fun w => ((addRowItems dw w t items).1, Obs.row (addRowItems dw w t items).2)) :=
  (stepRes_alloc (t := t) (P := P) (I := I) (pre := fun w => w) (rw0 := {})
    (post := fun L => seq (fun w => rowAddMany dw L items w) (fun w => addRow dw w t L))
    (LocalStep.id' t P I) (fun _ => rfl) rowOK_default
    (fun L => LocalStep.seq (ls_rowAddMany dw (.inr rfl) items hi) (ls_addRow dw (.inr rfl))) h).mapObs Obs.row

theorem stepRes_appendNewRow (dw : Measure) {w : World} (h : Inv t P I w) :
    StepRes t P (fun r => P r ∨ r = w.rows.length) I (w.rows.length + 1) w
      (fun w => ((appendNewRow dw w t).1, Obs.row (appendNewRow dw w t).2)) :=
  (stepRes_alloc (t := t) (P := P) (I := I) (pre := fun w => w) (rw0 := {})
    (post := fun L => (fun w => addRow dw w t L))
    (LocalStep.id' t P I) (fun _ => rfl) rowOK_default
    (fun L => ls_addRow dw (.inr rfl)) h).mapObs Obs.row

theorem stepRes_newRow {w : World} (h : Inv t P I w) :
    StepRes t P (fun r => P r ∨ r = w.rows.length) I (w.rows.length + 1) w
      (fun w => ((w.newRow {}).1, Obs.row (w.newRow {}).2)) :=
  (stepRes_alloc (t := t) (P := P) (I := I) (pre := fun w => w) (rw0 := {})
    (post := fun _ => (fun w => w))
    (LocalStep.id' t P I) (fun _ => rfl) rowOK_default
    (fun L => LocalStep.id' _ _ _) h).mapObs Obs.row

theorem apply_local (x : Ext) (s : Step) {w : World} (h : Inv t P I w) (hs : StepOn t P I s) :
    StepRes t P (growP P w.rows.length s) I (w.rows.length + s.nalloc) w
      (fun w => (applyW x w s, applyO x w s)) := by
  cases s with
  | newRow => exact stepRes_newRow h
  | rowAdd r i => exact stepRes_of_ls (ls_rowAdd x.dw hs.1 hs.2) _ rd_unit h
  | addRow t' r =>
    obtain ⟨rfl, hr⟩ := hs
    exact stepRes_of_ls (ls_addRow x.dw hr) _ rd_unit h
  | addSeparator t' =>
    have : t' = t := hs
    subst this
    exact stepRes_addSeparator h
  | addHeaders t' items =>
    obtain ⟨rfl, hi⟩ := hs
    exact stepRes_addHeaders x.dw items hi h
  | addRowItems t' items =>
    obtain ⟨rfl, hi⟩ := hs
    exact stepRes_addRowItems x.dw items hi h
  | appendNewRow t' =>
    have : t' = t := hs
    subst this
    exact stepRes_appendNewRow x.dw h
  | setProp o k v => exact stepRes_of_ls (ls_setProp hs k v) _ rd_unit h
  | registerCb o tm tg cb =>
    refine stepRes_of_ls (ls_registerCb hs tm tg cb) _ ⟨fun _ _ => trivial, fun w w₂ _ _ => ?_⟩ h
    show (if (registerCb w o tm tg cb).isSome then Obs.unit else Obs.refused)
      = (if (registerCb w₂ o tm tg cb).isSome then Obs.unit else Obs.refused)
    rw [registerCb_isSome w w₂]
  | wrap k t' =>
    have : t' = t := hs
    subst this
    exact stepRes_of_ls (ls_wrapEffect k) _ rd_unit h
  | invokeRenderCallbacks t' =>
    have : t' = t := hs
    subst this
    exact stepRes_of_ls (ls_invokeRenderCallbacks x.dw) _ rd_unit h
  | render wr => exact stepRes_of_ls (ls_renderTo_world x wr hs) _ (rd_renderOut x wr hs) h
  | cellAt t' r c =>
    have : t' = t := hs
    subst this
    exact stepRes_of_ls (LocalStep.id' _ _ _) _ ((rd_cellAt r c).map Obs.cell _ (fun _ _ => trivial)) h
  | hasColumn t' n =>
    have : t' = t := hs
    subst this
    exact stepRes_of_ls (LocalStep.id' _ _ _) _ ((rd_hasColumn n).map Obs.bool _ (fun _ _ => trivial)) h
  | rowErrors r =>
    exact stepRes_of_ls (LocalStep.id' _ _ _) _ ((rd_rowErrors hs).map Obs.errs _ (fun _ _ => trivial)) h
  | tableErrors t' =>
    have : t' = t := hs
    subst this
    exact stepRes_of_ls (LocalStep.id' _ _ _) _ (rd_tablef (fun tb => Obs.errs tb.errs)) h

end C16
end Tab
