/-
  `wrapEffect` (what `X.Wrap` does to the world) against `LogOnly`, `Needs`, `obs`; and the
  relation `Stable w w'` ("`w'` is `w` after some wraps and log-only renders") that the
  sequence theorems are proved with.
-/
import Tabmodel.Proofs.StableView
namespace Tab
namespace World

/-- the measuring callback `X.Wrap` registers -/
def wrapCb : WKind → Option Cb
  | .text => some .dimSetter
  | .markdown => some .widthSetter
  | _ => none

theorem table_modTable' (w : World) (t : Nat) (f : Table → Table) (t' : Nat) :
    (w.modTable t f).table t' = if t = t' ∧ t < w.tables.length then f (w.table t') else w.table t' := by
  unfold modTable table
  simp only [List.getD_eq_getElem?_getD, List.getElem?_modify]
  by_cases h : t = t'
  · subst h
    cases hh : w.tables[t]? with
    | none =>
      have := List.getElem?_eq_none_iff.mp hh
      have hn : ¬ t < w.tables.length := by omega
      simp [hn]
    | some tb =>
      have := (List.getElem?_eq_some_iff.mp hh).1
      simp [this]
  · simp only [h, false_and, if_false]
    cases w.tables[t']? <;> simp

theorem table_wrapEffect (w : World) (k : WKind) (t t' : Nat) :
    (w.wrapEffect k t).table t' =
      match wrapCb k with
      | some cb =>
        if t = t' ∧ t < w.tables.length then
          { w.table t' with cellCbs := (w.table t').cellCbs.push .render cb }
        else w.table t'
      | none => w.table t' := by
  cases k <;> simp only [wrapEffect, wrapCb, table_modTable']

/-- a wrap changes nothing of any table but its cell-callback set -/
theorem table_wrapEffect_skel (w : World) (k : WKind) (t t' : Nat) :
    (w.wrapEffect k t).table t' = { w.table t' with cellCbs := ((w.wrapEffect k t).table t').cellCbs } := by
  rw [table_wrapEffect]
  cases wrapCb k with
  | none => rfl
  | some cb =>
    simp only
    split <;> rfl

theorem okCell_push_render (s : CbSet) (cb : Cb) (h : s.okCell = true) (hcb : cb.okCell = true) :
    (s.push .render cb).okCell = true := by
  unfold CbSet.okCell at h ⊢
  simp only [Bool.and_eq_true] at h
  simp only [CbSet.push, Bool.and_eq_true, List.all_append, List.all_cons, List.all_nil, Bool.and_true]
  exact ⟨⟨h.1.1, h.1.2, hcb⟩, h.2⟩

theorem wrapCb_okCell {k : WKind} {cb : Cb} (h : wrapCb k = some cb) : cb.okCell = true := by
  cases k <;> simp [wrapCb] at h <;> subst h <;> rfl

theorem cellCbs_okCell_wrapEffect (w : World) (k : WKind) (t t' : Nat) (h : (w.table t').cellCbs.okCell = true) :
    ((w.wrapEffect k t).table t').cellCbs.okCell = true := by
  rw [table_wrapEffect]
  cases hk : wrapCb k with
  | none => exact h
  | some cb =>
    simp only
    split
    · exact okCell_push_render _ cb h (wrapCb_okCell hk)
    · exact h

theorem render_mem_wrapEffect (w : World) (k : WKind) (t t' : Nat) (cb : Cb)
    (h : cb ∈ (w.table t').cellCbs.render) : cb ∈ ((w.wrapEffect k t).table t').cellCbs.render := by
  rw [table_wrapEffect]
  cases wrapCb k with
  | none => exact h
  | some cb' =>
    simp only
    split
    · simp only [CbSet.push, List.mem_append]; exact Or.inl h
    · exact h

theorem render_mem_wrapEffect_self (w : World) (k : WKind) (t : Nat) (ht : t < w.tables.length) (cb : Cb)
    (hk : wrapCb k = some cb) : cb ∈ ((w.wrapEffect k t).table t).cellCbs.render := by
  rw [table_wrapEffect, hk]
  simp [ht, CbSet.push]

@[simp] theorem row_wrapEffect (w : World) (k : WKind) (t r : Nat) : (w.wrapEffect k t).row r = w.row r := by
  cases k <;> rfl
@[simp] theorem rowCells_wrapEffect (w : World) (k : WKind) (t r : Nat) : (w.wrapEffect k t).rowCells r = w.rowCells r := by
  unfold rowCells; rw [row_wrapEffect]
@[simp] theorem cell?_wrapEffect (w : World) (k : WKind) (t r c : Nat) : (w.wrapEffect k t).cell? r c = w.cell? r c := by
  unfold cell?; rw [rowCells_wrapEffect]

theorem columnOf_wrapEffect (w : World) (k : WKind) (t r c : Nat) : (w.wrapEffect k t).columnOf r c = w.columnOf r c := by
  unfold columnOf
  simp only [cell?_wrapEffect, row_wrapEffect]
  cases w.cell? r c with
  | none => rfl
  | some ce =>
    simp only
    split
    · rfl
    · cases ce.inRow with
      | none => rfl
      | some r' =>
        simp only
        cases (w.row r').inTable with
        | none => rfl
        | some t' =>
          simp only
          rw [table_wrapEffect_skel w k t t']

theorem colCellCbs_wrapEffect (w : World) (k : WKind) (t : Nat) (tc : Option (Nat × Nat)) (tm : Time) :
    (w.wrapEffect k t).colCellCbs tc tm = w.colCellCbs tc tm := by
  unfold colCellCbs
  cases tc with
  | none => rfl
  | some p =>
    obtain ⟨t', n⟩ := p
    simp only [column?]
    rw [table_wrapEffect_skel w k t t']

theorem rowLogOnly_wrapEffect (w : World) (k : WKind) (t r : Nat) (h : RowLogOnly w r) :
    RowLogOnly (w.wrapEffect k t) r := by
  unfold RowLogOnly at h ⊢
  simp only [row_wrapEffect, rowCells_wrapEffect, columnOf_wrapEffect, colCellCbs_wrapEffect]
  exact h

theorem logOnly_wrapEffect (w : World) (k : WKind) (t t' : Nat) (h : LogOnly w t') :
    LogOnly (w.wrapEffect k t) t' := by
  have hs := table_wrapEffect_skel w k t t'
  unfold LogOnly at h ⊢
  refine ⟨?_, cellCbs_okCell_wrapEffect w k t t' h.2.1, ?_, ?_⟩
  · rw [hs]; exact h.1
  · rw [hs]; exact h.2.2.1
  · rw [hs]
    intro r hr
    exact rowLogOnly_wrapEffect w k t r (h.2.2.2 r hr)

theorem needs_wrapEffect (w : World) (k : WKind) (t : Nat) (wr : Wrapper) (h : Needs w wr) :
    Needs (w.wrapEffect k t) wr :=
  ⟨fun hk => render_mem_wrapEffect w k t wr.core _ (h.1 hk),
   fun hk => render_mem_wrapEffect w k t wr.core _ (h.2 hk)⟩

/-- a wrapper built by `X.Wrap` on an existing table has the callback its renderer needs -/
theorem needs_wrapEffect_self (w : World) (wr : Wrapper) (ht : wr.core < w.tables.length) :
    Needs (w.wrapEffect wr.kind wr.core) wr := by
  constructor
  · intro hk; exact render_mem_wrapEffect_self w wr.kind wr.core ht _ (by rw [hk]; rfl)
  · intro hk; exact render_mem_wrapEffect_self w wr.kind wr.core ht _ (by rw [hk]; rfl)

theorem rowErrors_wrapEffect (w : World) (k : WKind) (t r : Nat) : (w.wrapEffect k t).rowErrors r = w.rowErrors r := by
  unfold rowErrors
  rw [row_wrapEffect]
  cases (w.row r).ec with
  | table t' => simp only; rw [table_wrapEffect_skel w k t t']
  | _ => rfl

theorem rowObs_wrapEffect (w : World) (k : WKind) (t r : Nat) : (w.wrapEffect k t).rowObs r = w.rowObs r := by
  unfold rowObs
  rw [rowErrors_wrapEffect, row_wrapEffect, rowCells_wrapEffect]
  congr 1
  apply List.map_congr_left
  intro ce _
  unfold cellObs cellLocation
  simp only [row_wrapEffect]

theorem obs_wrapEffect (w : World) (k : WKind) (t t' : Nat) : (w.wrapEffect k t).obs t' = w.obs t' := by
  unfold obs
  rw [table_wrapEffect_skel w k t t']
  have hro : (w.wrapEffect k t).rowObs = w.rowObs := funext (rowObs_wrapEffect w k t)
  simp only [hro]

/-! ### `tabular.New()` -/

theorem table_newTable (w : World) : w.newTable.1.table w.newTable.2 = {} := by
  unfold newTable table
  simp [List.getD_eq_getElem?_getD]

theorem logOnly_newTable (w : World) : LogOnly w.newTable.1 w.newTable.2 := by
  unfold LogOnly
  rw [table_newTable]
  refine ⟨rfl, rfl, ?_, ?_⟩
  · intro c hc
    simp only [List.mem_singleton] at hc
    subst hc; rfl
  · intro r hr
    simp at hr

theorem newTable_lt (w : World) : w.newTable.2 < w.newTable.1.tables.length := by
  unfold newTable; simp

/-! ### the relation kept by wraps and log-only renders -/

/-- `w'` renders like `w` and shows the same table to the user -/
structure Stable (w w' : World) : Prop where
  bare : w'.bare = w.bare
  logOnly : ∀ t, LogOnly w t → LogOnly w' t
  needs : ∀ wr, Needs w wr → Needs w' wr
  obs : ∀ t, w'.obs t = w.obs t
  ntables : w'.tables.length = w.tables.length

theorem Stable.refl (w : World) : Stable w w :=
  ⟨rfl, fun _ h => h, fun _ h => h, fun _ => rfl, rfl⟩

theorem Stable.trans {w w' w'' : World} (h : Stable w w') (h' : Stable w' w'') : Stable w w'' :=
  ⟨h'.bare.trans h.bare, fun t hl => h'.logOnly t (h.logOnly t hl), fun wr hn => h'.needs wr (h.needs wr hn),
   fun t => (h'.obs t).trans (h.obs t), h'.ntables.trans h.ntables⟩

theorem ntables_wrapEffect (w : World) (k : WKind) (t : Nat) : (w.wrapEffect k t).tables.length = w.tables.length := by
  cases k <;> simp [wrapEffect, modTable]

theorem Stable.wrap (w : World) (k : WKind) (t : Nat) : Stable w (w.wrapEffect k t) :=
  ⟨bare_wrapEffect w k t, fun t' h => logOnly_wrapEffect w k t t' h, fun wr h => needs_wrapEffect w k t wr h,
   fun t' => obs_wrapEffect w k t t', ntables_wrapEffect w k t⟩

theorem Stable.of_erase_eq {w w' : World} (h : w'.erase = w.erase) : Stable w w' :=
  ⟨bare_of_erase_eq h, fun t hl => (logOnly_of_erase_eq h t).mpr hl, fun wr hn => (needs_of_erase_eq h wr).mpr hn,
   fun t => by rw [← obs_erase w', h, obs_erase], congrArg (fun w => w.tables.length) h⟩

theorem Stable.render (x : Ext) (w : World) (wr : Wrapper) (hL : LogOnly w wr.core) :
    Stable w (renderTo x w wr).1 :=
  Stable.of_erase_eq (erase_renderTo x w wr hL)

/-- the output of a render is the same from every world `Stable`-related to `w` -/
theorem Stable.render_eq {w w' : World} (h : Stable w w') (x : Ext) (wr : Wrapper) (hL : LogOnly w wr.core)
    (hN : Needs w wr) : (renderTo x w' wr).2 = (renderTo x w wr).2 :=
  render_congr x w' w wr h.bare (h.logOnly _ hL) hL (h.needs wr hN) hN

/-- wraps of whatever kinds around one table -/
theorem stable_wraps (t : Nat) (ks : List WKind) (w : World) :
    Stable w (ks.foldl (fun w k => w.wrapEffect k t) w) := by
  suffices h : ∀ w', Stable w w' → Stable w (ks.foldl (fun w k => w.wrapEffect k t) w') from h w (Stable.refl w)
  induction ks with
  | nil => intro w' h; exact h
  | cons k ks ih =>
    intro w' h
    rw [List.foldl_cons]
    exact ih _ (h.trans (Stable.wrap w' k t))

end World

open World in
theorem stable_ops (x : Ext) (w : World) (ops : List RenderOp) (hops : ∀ op ∈ ops, op.ok w) :
    Stable w (ops.foldl (RenderOp.run x) w) := by
  suffices h : ∀ w', Stable w w' → Stable w (ops.foldl (RenderOp.run x) w') from h w (Stable.refl w)
  induction ops with
  | nil => intro w' h; exact h
  | cons op ops ih =>
    intro w' h
    rw [List.foldl_cons]
    apply ih (fun op' hop' => hops op' (List.mem_cons_of_mem _ hop'))
    have hop := hops op (List.mem_cons_self ..)
    cases op with
    | wrap k t => exact h.trans (Stable.wrap w' k t)
    | render wr => exact h.trans (Stable.render x w' wr (h.logOnly _ hop))


end Tab
