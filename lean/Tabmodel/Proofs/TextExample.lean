/- C03 / C04: a concrete view and two decorations used by the non-vacuity examples (`dw := List.length`). -/
import Tabmodel.Proofs.TextFinal
namespace Tab
namespace TextExample

/-- `horizontal "-"`, `vertical "|"`, `crossPiece "+"`, populated -/
def asciiSimple : Decoration :=
  ({ horizontal := [45], vertical := [124], crossPiece := [43] } : Decoration).populate

def boxlessDeco : Decoration := { isBoxless := true }

/-- header `a | bb`; rows `"ccc\nd" | e`, a separator, and the ragged row `f`; column 1 right-aligned,
    column 2 centred -/
def exView : RTable :=
  { ncols := 2
    header := some [measuredCell List.length [97], measuredCell List.length [98, 98]]
    rows := [some [measuredCell List.length [99, 99, 99, 10, 100], measuredCell List.length [101]],
             none,
             some [measuredCell List.length [102]]]
    colAlign := [none, some (.align 2), some (.align 3)]
    colSkip := [none, none, none] }

theorem hn : 1 ≤ exView.ncols := by decide
theorem hs : WFShape exView := by decide
theorem ha : AlignOK exView := by
  intro i hi
  have : i = 0 ∨ i = 1 ∨ i = 2 := by simp [exView] at hi; omega
  rcases this with rfl | rfl | rfl
  · left; rfl
  · right; exact ⟨2, by simp, rfl⟩
  · right; exact ⟨3, by simp, rfl⟩
theorem hg : GlyphOK List.length asciiSimple := ⟨by decide, by decide, by decide⟩
theorem hb : BoxlessOK boxlessDeco := ⟨rfl, rfl, rfl, rfl⟩
theorem hall : ∀ c ∈ exView.allCells, CellOK List.length c ∧ CellFits c ∧ CellMeasured List.length c := by
  intro c hc
  simp only [RTable.allCells, exView, List.flatMap_cons, List.flatMap_nil, List.append_nil,
    List.mem_append, List.mem_cons, List.not_mem_nil, or_false, false_or] at hc
  rcases hc with (rfl | rfl) | (rfl | rfl) | rfl <;> exact measuredCell_ok _ _
theorem hv : ViewOK List.length exView := fun c hc => ⟨(hall c hc).1, (hall c hc).2.1⟩
theorem hsp : ∀ k, List.length (spaces k) = k := by simp [spaces]
/-- `List.length` is additive on every line -/
theorem hadd (segs : List Seg) : AdditiveOn List.length segs := by
  unfold AdditiveOn; rw [List.length_flatten]

/-- a string item `"ab\nc"` and its cell after the measuring callback ran -/
def exItem : Item :=
  { kind := .str [97, 98, 10, 99], mString := none, mGoString := none, mError := none,
    fmtV := [97, 98, 10, 99], mHeight := none, mWidth := none, json := none }
def exCell0 : Cell := newCell List.length 0 exItem
def exCell : Cell :=
  { exCell0 with props := [(.ttLines, (World.dimProps List.length exItem exCell0).2),
                            (.ttDims, (World.dimProps List.length exItem exCell0).1)] }

/-- a world with one row holding `exCell0` -/
def exWorld : World := { rows := [{ cells := some [exCell0] }], items := [exItem] }

/-- a string item `"ab"` that declares display width 5 and height 3 -/
def wideItem : Item :=
  { kind := .str [97, 98], mString := none, mGoString := none, mError := none,
    fmtV := [97, 98], mHeight := some 3, mWidth := some 5, json := none }
theorem wide_plain : wideItem.plain :=
  ⟨by intro s w h e hk; simp [wideItem] at hk, by intro hk; simp [wideItem] at hk⟩

end TextExample
end Tab
