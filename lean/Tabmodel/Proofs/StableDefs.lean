/-
  Definitions shared by the C10 / C14 property files and their helper lemmas
  (`Proofs/Stable*.lean`): the `LogOnly` hypothesis, the observation `obs`, the
  "needed measuring callback is registered" predicate, and the two normal forms
  (`erase`, `bare`) the proofs compare worlds by.  Definitions only.
-/
import Tabmodel.Model.Render
namespace Tab

/-- the three private keys of texttable / markdown (`propDimensions`, `propLinesWidths`, `propWidth`) -/
def Key.isPriv : Key → Bool
  | .ttDims | .ttLines | .mdWidth => true
  | _ => false

/-- a callback allowed on a table / column / row itself: it only logs -/
def Cb.okSelf : Cb → Bool
  | .log _ => true
  | _ => false

/-- a callback allowed on cells: logs, or is one of the two measuring callbacks -/
def Cb.okCell : Cb → Bool
  | .log _ | .dimSetter | .widthSetter => true
  | _ => false

/-- the three render-time lists of a set (the `add` list is never run by a render) -/
def CbSet.okSelf (s : CbSet) : Bool := s.pre.all Cb.okSelf && s.render.all Cb.okSelf && s.post.all Cb.okSelf
def CbSet.okCell (s : CbSet) : Bool := s.pre.all Cb.okCell && s.render.all Cb.okCell && s.post.all Cb.okCell

namespace World

/-- row `r`: its own callbacks, its cell callbacks, the callbacks of each of its cells, and the
    column cell-callbacks that apply to each of its cells (`Cell.columnOfTable`) -/
def RowLogOnly (w : World) (r : Nat) : Prop :=
  (w.row r).selfCbs.okSelf = true ∧ (w.row r).cellCbs.okCell = true ∧
  (∀ ce ∈ w.rowCells r, ce.cbs.okCell = true) ∧
  (∀ i, i < (w.rowCells r).length →
    (colCellCbs w (columnOf w r i) .pre).all Cb.okCell = true ∧
    (colCellCbs w (columnOf w r i) .post).all Cb.okCell = true)

/-- "absent user callbacks that fail or mutate": every render-time callback of table `t`, of its
    columns, of its header and rows, and of their cells only logs; the two measuring callbacks
    may additionally sit in any cell-callback set. -/
def LogOnly (w : World) (t : Nat) : Prop :=
  (w.table t).selfCbs.okSelf = true ∧ (w.table t).cellCbs.okCell = true ∧
  (∀ c ∈ (w.table t).columns, c.selfCbs.okSelf = true) ∧
  (∀ r ∈ (w.table t).header.toList ++ (w.table t).rows, RowLogOnly w r)

instance (w : World) (r : Nat) : Decidable (RowLogOnly w r) := by unfold RowLogOnly; infer_instance
instance (w : World) (t : Nat) : Decidable (LogOnly w t) := by unfold LogOnly; infer_instance

/-- the measuring callback that the renderer of `wr.kind` relies on is registered on the core
    table (true of every wrapper built by `wrapEffect`, i.e. by `X.Wrap` / `X.New` / `X.Render`) -/
def Needs (w : World) (wr : Wrapper) : Prop :=
  (wr.kind = .text → Cb.dimSetter ∈ (w.table wr.core).cellCbs.render) ∧
  (wr.kind = .markdown → Cb.widthSetter ∈ (w.table wr.core).cellCbs.render)

instance (w : World) (wr : Wrapper) : Decidable (Needs w wr) := by unfold Needs; infer_instance

/-! ### what a user can observe of a table (C14) -/

/-- `GetProperty(k)` for the keys a user can name (the three private keys are unexported) -/
def userGet (c : Chain) (k : Key) : Option Val := if k.isPriv then none else c.get k

structure CellObs where
  text : Bytes
  loc : Nat × Nat
  props : Key → Option Val

structure RowObs where
  isSep : Bool
  cells : List CellObs
  props : Key → Option Val
  errs : List Nat

structure Obs where
  nRows : Nat
  nCols : Nat
  header : Option RowObs
  rows : List RowObs
  tableProps : Key → Option Val
  colProps : List (Key → Option Val)
  errs : List Nat

def cellObs (w : World) (ce : Cell) : CellObs :=
  { text := ce.str, loc := w.cellLocation ce, props := userGet ce.props }

def rowObs (w : World) (r : Nat) : RowObs :=
  { isSep := (w.row r).isSep, cells := (w.rowCells r).map w.cellObs,
    props := userGet (w.row r).props, errs := w.rowErrors r }

/-- row / column counts, per row the separator flag, cell texts and locations, every owner's
    user properties, the table's (and each row's) error list -/
def obs (w : World) (t : Nat) : Obs :=
  { nRows := (w.table t).rows.length
    nCols := (w.table t).nColumns
    header := (w.table t).header.map w.rowObs
    rows := (w.table t).rows.map w.rowObs
    tableProps := userGet (w.table t).props
    colProps := (w.table t).columns.map (fun c => userGet c.props)
    errs := (w.table t).errs }

end World

/-- One step of a history: `X.Wrap(t)` (also what `X.New`, `X.Render(t)`, `auto.Wrap` start with)
    or a `RenderTo` through some wrapper. -/
inductive RenderOp
  | wrap (k : WKind) (t : Nat)
  | render (wr : Wrapper)

def RenderOp.run (x : Ext) (w : World) : RenderOp → World
  | .wrap k t => w.wrapEffect k t
  | .render wr => (World.renderTo x w wr).1

/-- the table a render step works on has log-only callbacks (in the initial world) -/
def RenderOp.ok (w : World) : RenderOp → Prop
  | .wrap _ _ => True
  | .render wr => World.LogOnly w wr.core

/-- One content-building step on the world (the operations of `atable.go`, `row.go`,
    `properties.go` as the model has them); item ids refer to the world's item store. -/
inductive ContentOp
  | newRow                                              -- `tabular.NewRow()`
  | rowAdd (r item : Nat)                               -- `row.Add(NewCell(item))`
  | addRow (t r : Nat)                                  -- `t.AddRow(row)`
  | addHeaders (t : Nat) (items : List Nat)             -- `t.AddHeaders(items...)`
  | addRowItems (t : Nat) (items : List Nat)            -- `t.AddRowItems(items...)`
  | addSeparator (t : Nat)                              -- `t.AddSeparator()`
  | appendNewRow (t : Nat)                              -- `t.AppendNewRow()`
  | setProp (o : Target) (k : Key) (v : Option Val)     -- `owner.SetProperty(k, v)`
  | addErr (tk : Taker) (e : Nat)                       -- `AddError(e)`
  | register (o : Target) (tm : Time) (tg : World.CbTarget) (cb : Cb)  -- `RegisterPropertyCallback`

def ContentOp.run (dw : Measure) (w : World) : ContentOp → World
  | .newRow => (w.newRow {}).1
  | .rowAdd r i => w.rowAdd dw r i
  | .addRow t r => w.addRow dw t r
  | .addHeaders t is => w.addHeaders dw t is
  | .addRowItems t is => (w.addRowItems dw t is).1
  | .addSeparator t => w.addSeparator t
  | .appendNewRow t => (w.appendNewRow dw t).1
  | .setProp o k v => w.setProp o k v
  | .addErr tk e => w.addErrTo tk e
  | .register o tm tg cb => (w.registerCb o tm tg cb).getD w

/-- the step does not itself register a render-time cell callback on table `t` (the one list a
    wrap appends to; such registrations commute with a wrap only up to the order of that list) -/
def ContentOp.okFor (t : Nat) : ContentOp → Prop
  | .register (.table t') .render .cell _ => t' ≠ t
  | _ => True

/-! ### normal forms used by the proofs -/

/-- the user part of a chain: links with a private key dropped -/
def Chain.user (c : Chain) : Chain := c.filter (fun kv => !kv.1.isPriv)

def Cell.erase (c : Cell) : Cell := { c with props := c.props.user }
def Row.erase (r : Row) : Row := { r with cells := r.cells.map (·.map Cell.erase) }
/-- forget the event log and the private properties of cells -/
def World.erase (w : World) : World := { w with rows := w.rows.map Row.erase, events := [] }

def Cell.bare (c : Cell) : Cell := { c with props := c.props.user, cbs := {} }
def Row.bare (r : Row) : Row :=
  { r with cells := r.cells.map (·.map Cell.bare), cellCbs := {}, selfCbs := {} }
def Column.bare (c : Column) : Column := { c with cellCbs := {}, selfCbs := {} }
def Table.bare (t : Table) : Table :=
  { t with columns := t.columns.map Column.bare, selfCbs := {}, cellCbs := {}, rowCbs := {} }
/-- additionally forget every callback set -/
def World.bare (w : World) : World :=
  { w with tables := w.tables.map Table.bare, rows := w.rows.map Row.bare, events := [] }

/-- zero the measurement fields a renderer does not read -/
def RCell.mask (tt md : Bool) (c : RCell) : RCell :=
  { c with cellWidth := if tt then c.cellWidth else 0
           lws := if tt then c.lws else []
           mdw := if md then c.mdw else 0 }

/-- what the measuring callbacks store on a cell under each private key -/
def mval (dw : Measure) (w : World) (ce : Cell) : Key → Val
  | .ttDims => (World.dimProps dw (w.item ce.item) ce).1
  | .ttLines => (World.dimProps dw (w.item ce.item) ce).2
  | _ => .mdw ce.termWidth

end Tab
