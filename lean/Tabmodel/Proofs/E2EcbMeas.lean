/-
  E2Ecb helpers, part 7: the MEASURED fields of the view after a pass with arbitrary user callbacks.

  The model's `.setProp id k v` may name one of the three private measurement keys (a Go user
  cannot).  `UserKeysOnly w t` excludes exactly that: no callback the pass over `t` invokes is a
  `.setProp` on a private key.  Under it — whatever else the callbacks set, log or fail — every
  cell the pass visits ends with the measured values under the private keys of the measuring
  callback(s) registered on the table's cells, so the masked view is `canonView` of the world BEFORE
  the pass, with the column properties of the world AFTER it.
-/
import Tabmodel.Proofs.E2EcbView
import Tabmodel.Proofs.E2EText
set_option linter.unusedSimpArgs false
namespace Tab

/-- a user callback (`log`, `setProp`, `fail`) that names no private measurement key; the two
    measuring callbacks qualify -/
def Cb.userKeyOnly : Cb → Bool
  | .setProp _ k _ => !k.isPriv
  | _ => true

/-- every callback a pass over `t` invokes names no private key -/
def World.UserKeysOnly (w : World) (t : Nat) : Prop := ∀ s ∈ passSteps w t, s.cb.userKeyOnly = true

instance (w : World) (t : Nat) : Decidable (w.UserKeysOnly t) := by unfold World.UserKeysOnly; infer_instance

namespace E2Ecb
open World

/-! ### cells under `setProp` / `addErrTo` -/

theorem cell?_setProp (w : World) (o : Target) (k : Key) (v : Option Val) (r j : Nat) :
    (w.setProp o k v).cell? r j =
      if o = .cell r j then (w.cell? r j).map (fun ce => { ce with props := ce.props.set k v })
      else w.cell? r j := by
  cases o with
  | table t => simp only [reduceCtorEq, if_false]; rfl
  | column t n => simp only [reduceCtorEq, if_false]; rfl
  | row r' =>
    simp only [reduceCtorEq, if_false]
    exact C13.cell?_modRow_of w r' (fun rw => { rw with props := rw.props.set k v }) (fun _ => rfl) r j
  | cell r' c' =>
    simp only [World.setProp, C13.cell?_modCell, Target.cell.injEq]
  | copy n => simp only [reduceCtorEq, if_false]; rfl

theorem cell?_addErrTo (w : World) (tk : Taker) (e : Nat) (r j : Nat) :
    (w.addErrTo tk e).cell? r j = w.cell? r j := by
  unfold World.addErrTo
  cases tk with
  | drop => rfl
  | table t => rfl
  | rowOwn r' =>
    apply C13.cell?_modRow_of
    intro rw; split <;> rfl
  | rowLazy r' =>
    dsimp only
    split
    · apply C13.cell?_modRow_of; intro _; rfl
    · apply C13.cell?_modRow_of; intro _; rfl
    · rfl

/-! ### `KeyMeas` through one arbitrary invocation -/

theorem keyMeas_congr {dw : Measure} {k : Key} {r j : Nat} {w' w : World}
    (hc : w'.cell? r j = w.cell? r j) (hi : w'.items = w.items) (h : KeyMeas dw k r j w) :
    KeyMeas dw k r j w' := by
  intro ce hce
  rw [hc] at hce
  rw [h ce hce]
  have := mval_frame dw w w' ce ce.props (fun i => by unfold World.item; rw [hi])
  exact congrArg some (congrFun this k).symm

theorem keyMeas_setProp_other_key (dw : Measure) (w : World) (tgt : Target) (k' : Key) (v : Option Val)
    (k : Key) (r j : Nat) (hne : k' ≠ k) (h : KeyMeas dw k r j w) :
    KeyMeas dw k r j (w.setProp tgt k' v) := by
  intro ce hce
  rw [cell?_setProp] at hce
  have hit : ∀ i, (w.setProp tgt k' v).item i = w.item i := by
    intro i; unfold World.item; rw [items_setProp]
  by_cases ht : tgt = .cell r j
  · simp only [ht, if_true] at hce
    cases hc0 : w.cell? r j with
    | none => rw [hc0] at hce; simp at hce
    | some ce0 =>
      rw [hc0] at hce
      simp only [Option.map_some, Option.some.injEq] at hce
      subst hce
      simp only
      rw [C13.chain_get_set_ne ce0.props v hne, h ce0 hc0]
      have := mval_frame dw w (w.setProp tgt k' v) ce0 (ce0.props.set k' v) hit
      exact congrArg some (congrFun this k).symm
  · simp only [ht, if_false] at hce
    rw [h ce hce]
    have := mval_frame dw w (w.setProp tgt k' v) ce ce.props hit
    exact congrArg some (congrFun this k).symm

theorem keyMeas_events (dw : Measure) (w : World) (es : List Event) (k : Key) (r j : Nat)
    (h : KeyMeas dw k r j w) : KeyMeas dw k r j ({ w with events := es } : World) :=
  keyMeas_congr (w := w) rfl rfl h

theorem keyMeas_addErrTo (dw : Measure) (w : World) (tk : Taker) (e : Nat) (k : Key) (r j : Nat)
    (h : KeyMeas dw k r j w) : KeyMeas dw k r j (w.addErrTo tk e) :=
  keyMeas_congr (cell?_addErrTo w tk e r j) (items_addErrTo w tk e) h

/-- any callback that names no private key keeps the measured value of a private key on every cell -/
theorem keyMeas_invokeOne_any (dw : Measure) (w : World) (cb : Cb) (tgt : Target) (tk : Taker) (k : Key)
    (r j : Nat) (hk : k.isPriv = true) (hcb : cb.userKeyOnly = true) (h : KeyMeas dw k r j w) :
    KeyMeas dw k r j (invokeOne dw w cb tgt tk) := by
  cases cb with
  | log id => exact keyMeas_events dw w _ k r j h
  | setProp id k' v =>
    have hne : k' ≠ k := by
      intro e; subst e
      simp [Cb.userKeyOnly, hk] at hcb
    exact keyMeas_setProp_other_key dw _ tgt k' v k r j hne (keyMeas_events dw w _ k r j h)
  | fail id e => exact keyMeas_addErrTo dw _ tk e k r j (keyMeas_events dw w _ k r j h)
  | dimSetter =>
    cases tgt with
    | cell r' c' => exact keyMeas_invokeOne_dim dw w r' c' tk k r j h
    | table t => exact keyMeas_addErrTo dw w tk _ k r j h
    | column t n => exact keyMeas_addErrTo dw w tk _ k r j h
    | row r' => exact keyMeas_addErrTo dw w tk _ k r j h
    | copy n => exact keyMeas_addErrTo dw w tk _ k r j h
  | widthSetter =>
    cases tgt with
    | cell r' c' => exact keyMeas_invokeOne_wid dw w r' c' tk k r j h
    | table t => exact keyMeas_addErrTo dw w tk _ k r j h
    | column t n => exact keyMeas_addErrTo dw w tk _ k r j h
    | row r' => exact keyMeas_addErrTo dw w tk _ k r j h
    | copy n => exact keyMeas_addErrTo dw w tk _ k r j h

theorem keyMeas_runSteps (dw : Measure) (ss : List Step) (w : World) (k : Key) (r j : Nat) (hk : k.isPriv = true)
    (hall : ∀ s ∈ ss, s.cb.userKeyOnly = true) (h : KeyMeas dw k r j w) :
    KeyMeas dw k r j (runSteps dw w ss) := by
  induction ss generalizing w with
  | nil => exact h
  | cons s ss ih =>
    rw [runSteps_cons]
    exact ih _ (fun s' hs' => hall s' (by simp [hs']))
      (keyMeas_invokeOne_any dw w s.cb s.tgt s.tk k r j hk (hall s (by simp)) h)

/-- a schedule that contains `dimSetter` on cell `(r, i)` leaves the two texttable keys measured there -/
theorem keyMeas_runSteps_dim (dw : Measure) (ss : List Step) (w : World) (r i : Nat) (tk : Taker)
    (hall : ∀ s ∈ ss, s.cb.userKeyOnly = true) (hm : (⟨.dimSetter, .cell r i, tk⟩ : Step) ∈ ss) :
    KeyMeas dw .ttDims r i (runSteps dw w ss) ∧ KeyMeas dw .ttLines r i (runSteps dw w ss) := by
  obtain ⟨A, B, e⟩ := List.append_of_mem hm
  subst e
  rw [runSteps_append, runSteps_cons]
  have hB : ∀ s ∈ B, s.cb.userKeyOnly = true := fun s hs => hall s (by simp [hs])
  have := keyMeas_dim_est dw (runSteps dw w A) r i tk
  exact ⟨keyMeas_runSteps dw B _ .ttDims r i rfl hB this.1, keyMeas_runSteps dw B _ .ttLines r i rfl hB this.2⟩

theorem keyMeas_runSteps_wid (dw : Measure) (ss : List Step) (w : World) (r i : Nat) (tk : Taker)
    (hall : ∀ s ∈ ss, s.cb.userKeyOnly = true) (hm : (⟨.widthSetter, .cell r i, tk⟩ : Step) ∈ ss) :
    KeyMeas dw .mdWidth r i (runSteps dw w ss) := by
  obtain ⟨A, B, e⟩ := List.append_of_mem hm
  subst e
  rw [runSteps_append, runSteps_cons]
  have hB : ∀ s ∈ B, s.cb.userKeyOnly = true := fun s hs => hall s (by simp [hs])
  exact keyMeas_runSteps dw B _ .mdWidth r i rfl hB (keyMeas_wid_est dw (runSteps dw w A) r i tk)

/-! ### a render-time cell callback of the table is invoked on every cell of every visited row -/

theorem cellcb_mem_passSteps {w : World} {t r i : Nat} {cb : Cb} (hcb : cb ∈ (w.table t).cellCbs.render)
    (hr : r ∈ passRows w t) (hi : i < (w.rowCells r).length) :
    (⟨cb, .cell r i, .table t⟩ : Step) ∈ passSteps w t := by
  have h1 : (⟨cb, .cell r i, .table t⟩ : Step) ∈ cellSteps w t r i := by
    unfold cellSteps
    simp only [List.mem_append]
    refine Or.inl (Or.inl (Or.inl (Or.inl (Or.inr ?_))))
    unfold stepsOf
    exact List.mem_map.mpr ⟨cb, hcb, rfl⟩
  have h2 : (⟨cb, .cell r i, .table t⟩ : Step) ∈ rowSteps w t r := by
    unfold rowSteps
    simp only [List.mem_append, List.mem_flatMap]
    exact Or.inl (Or.inr ⟨i, List.mem_range.mpr hi, h1⟩)
  unfold passSteps
  simp only [List.mem_append, List.mem_flatMap]
  exact Or.inl (Or.inl (Or.inr ⟨r, hr, h2⟩))

/-! ### every visited cell is measured after the pass -/

theorem passRows_core {w' w : World} (h : w'.core = w.core) (t : Nat) : passRows w' t = passRows w t := by
  unfold passRows
  rw [of_core_eq (fun w => (w.table t).header) (rd_header t) h, of_core_eq (fun w => (w.table t).rows) (rd_rows t) h]

theorem measAll_irc_cb (dw : Measure) (tt md : Bool) (w : World) (t : Nat) (hU : w.UserKeysOnly t)
    (htt : tt = true → Cb.dimSetter ∈ (w.table t).cellCbs.render)
    (hmd : md = true → Cb.widthSetter ∈ (w.table t).cellCbs.render) :
    MeasAll dw tt md (invokeRenderCallbacks dw w t) t := by
  have hc := irc_core dw w t
  intro r hr ce hce
  have hr' : r ∈ passRows w t := by rw [← passRows_core hc t]; exact hr
  obtain ⟨j, hj⟩ := List.getElem?_of_mem hce
  have hlen : ((invokeRenderCallbacks dw w t).rowCells r).length = (w.rowCells r).length :=
    of_core_eq (fun w => (w.rowCells r).length) (rd_rowCellsLen r) hc
  have hjlt : j < (w.rowCells r).length := by
    rw [← hlen]
    exact (List.getElem?_eq_some_iff.mp hj).1
  constructor
  · intro h
    have := keyMeas_runSteps_dim dw (passSteps w t) w r j (.table t) hU (cellcb_mem_passSteps (htt h) hr' hjlt)
    rw [← irc_sched] at this
    exact ⟨this.1 ce hj, this.2 ce hj⟩
  · intro h
    have := keyMeas_runSteps_wid dw (passSteps w t) w r j (.table t) hU (cellcb_mem_passSteps (hmd h) hr' hjlt)
    rw [← irc_sched] at this
    exact this ce hj

/-! ### `canonView` through the core -/

theorem canonCell_core (dw : Measure) (tt md : Bool) (w : World) (c : Cell) :
    canonCell dw tt md w.core c.core = canonCell dw tt md w c := rfl

theorem canonView_core (dw : Measure) (tt md : Bool) (w : World) (t : Nat) (a s : List (Option Val)) :
    (canonView dw tt md w.core t).withCols a s = (canonView dw tt md w t).withCols a s := by
  unfold canonView RTable.withCols
  simp only [rd_nColumns, rd_header, rd_rows, RTable.mk.injEq, true_and, and_true]
  have hrow : ∀ r, (w.core.rowCells r).map (canonCell dw tt md w.core) =
      (w.rowCells r).map (canonCell dw tt md w) := by
    intro r
    rw [core_rowCells, List.map_map]
    rfl
  constructor
  · cases (w.table t).header with
    | none => rfl
    | some hr => simp only [Option.map_some, hrow]
  · apply List.map_congr_left
    intro r _
    simp only [rd_isSep, hrow]

/-- Under `UserKeysOnly`, with the measuring callback(s) registered: up to the fields the renderer
    does not read, the view after the pass is `canonView` of the world before it, carrying the column
    properties after it. -/
theorem view_measured_cb (dw : Measure) (tt md : Bool) (w : World) (t : Nat) (hU : w.UserKeysOnly t)
    (htt : tt = true → Cb.dimSetter ∈ (w.table t).cellCbs.render)
    (hmd : md = true → Cb.widthSetter ∈ (w.table t).cellCbs.render) :
    ((invokeRenderCallbacks dw w t).view t).mapCells (RCell.mask tt md) =
      (canonView dw tt md w t).withCols ((invokeRenderCallbacks dw w t).view t).colAlign
        ((invokeRenderCallbacks dw w t).view t).colSkip := by
  rw [view_mask_eq_canon dw tt md _ t (measAll_irc_cb dw tt md w t hU htt hmd)]
  rw [← canonView_core dw tt md w t, ← irc_core dw w t, canonView_core]
  rfl

/-! ### cells after the pass come from cells before it -/

theorem irc_cell_src_cb (dw : Measure) (w : World) (t : Nat) (r : Nat) (ce' : Cell)
    (h : ce' ∈ (invokeRenderCallbacks dw w t).rowCells r) : ∃ ce ∈ w.rowCells r, ce.core = ce'.core := by
  have hm : ce'.core ∈ ((invokeRenderCallbacks dw w t).rowCells r).map Cell.core :=
    List.mem_map.mpr ⟨ce', h, rfl⟩
  rw [← core_rowCells, irc_core dw w t, core_rowCells] at hm
  obtain ⟨ce, hce, e⟩ := List.mem_map.mp hm
  exact ⟨ce, hce, e⟩

theorem core_eq_fields {a b : Cell} (h : a.core = b.core) :
    a.item = b.item ∧ a.str = b.str ∧ a.width = b.width ∧ a.height = b.height ∧ a.empty = b.empty := by
  have h1 := congrArg Cell.item h
  have h2 := congrArg Cell.str h
  have h3 := congrArg Cell.width h
  have h4 := congrArg Cell.height h
  have h5 := congrArg Cell.empty h
  exact ⟨h1, h2, h3, h4, h5⟩

theorem cell_measured_cb (dw : Measure) (w : World) (t : Nat) (hU : w.UserKeysOnly t)
    (hcb : Cb.dimSetter ∈ (w.table t).cellCbs.render) (c : RCell)
    (hc : c ∈ ((invokeRenderCallbacks dw w t).view t).allCells) :
    ∃ r ∈ passRows w t,
      ∃ ce' ∈ (invokeRenderCallbacks dw w t).rowCells r, c = (invokeRenderCallbacks dw w t).rcell ce' ∧
        ce'.props.get .ttDims = some (dimProps dw ((invokeRenderCallbacks dw w t).item ce'.item) ce').1 ∧
        ce'.props.get .ttLines = some (dimProps dw ((invokeRenderCallbacks dw w t).item ce'.item) ce').2 := by
  obtain ⟨r, hr, ce', hce', e⟩ := mem_allCells_view _ t c hc
  have hM := measAll_irc_cb dw true false w t hU (fun _ => hcb) (fun h => Bool.noConfusion h) r hr ce' hce'
  have hr' : r ∈ passRows w t := by rw [← passRows_core (irc_core dw w t) t]; exact hr
  exact ⟨r, hr', ce', hce', e, (hM.1 rfl).1, (hM.1 rfl).2⟩

theorem cellOK_cb (dw : Measure) (w : World) (t : Nat) (hU : w.UserKeysOnly t)
    (hcb : Cb.dimSetter ∈ (w.table t).cellCbs.render) :
    ∀ c ∈ ((invokeRenderCallbacks dw w t).view t).allCells, Tab.CellOK dw c := by
  intro c hc
  obtain ⟨r, _, ce', _, e, h1, h2⟩ := cell_measured_cb dw w t hU hcb c hc
  rw [e]
  exact rcell_cellOK dw _ _ ce' h1 h2

theorem cell_src_cb (dw : Measure) (w : World) (t : Nat) (hU : w.UserKeysOnly t)
    (hcb : Cb.dimSetter ∈ (w.table t).cellCbs.render) (c : RCell)
    (hc : c ∈ ((invokeRenderCallbacks dw w t).view t).allCells) :
    ∃ r ∈ (w.table t).header.toList ++ (w.table t).rows, ∃ ce ∈ w.rowCells r,
      c.text = ce.str ∧ c.empty = ce.empty ∧ c.cellWidth = ce.termWidth := by
  obtain ⟨r, hr, ce', hce', e, h1, _⟩ := cell_measured_cb dw w t hU hcb c hc
  obtain ⟨ce, hce, hee⟩ := irc_cell_src_cb dw w t r ce' hce'
  obtain ⟨_, f2, f3, _, f5⟩ := core_eq_fields hee
  refine ⟨r, hr, ce, hce, ?_, ?_, ?_⟩
  · rw [e]; exact f2.symm
  · rw [e]; exact f5.symm
  · rw [e]
    have : ((invokeRenderCallbacks dw w t).rcell ce').cellWidth = ce'.termWidth := by
      unfold World.rcell; rw [h1, dimProps_eq]
    rw [this]
    unfold Cell.termWidth
    rw [f3]

theorem fitsSrc_of_core_eq {dw : Measure} {it : Item} {a b : Cell} (h : a.core = b.core)
    (hf : Cell.FitsSrc dw it a) : Cell.FitsSrc dw it b := by
  obtain ⟨_, h2, h3, _, _⟩ := core_eq_fields h
  unfold Cell.FitsSrc Cell.lines at hf ⊢
  rw [← h2, ← h3]
  exact hf

theorem viewOK_cb (dw : Measure) (w : World) (t : Nat) (hU : w.UserKeysOnly t)
    (hcb : Cb.dimSetter ∈ (w.table t).cellCbs.render) (hF : TableFits dw w t) :
    ViewOK dw ((invokeRenderCallbacks dw w t).view t) := by
  intro c hc
  obtain ⟨r, hr, ce', hce', e, h1, h2⟩ := cell_measured_cb dw w t hU hcb c hc
  obtain ⟨ce, hce, hee⟩ := irc_cell_src_cb dw w t r ce' hce'
  have hit : ∀ i, (invokeRenderCallbacks dw w t).item i = w.item i := by
    intro i; unfold World.item; rw [irc_items]
  have hfit : Cell.FitsSrc dw ((invokeRenderCallbacks dw w t).item ce'.item) ce' := by
    rw [hit, ← (core_eq_fields hee).1]
    exact fitsSrc_of_core_eq hee (hF r hr ce hce)
  rw [e]
  refine ⟨rcell_cellOK dw _ _ ce' h1 h2, ?_⟩
  have e1 : (dimProps dw ((invokeRenderCallbacks dw w t).item ce'.item) ce').1 =
      .dims ((invokeRenderCallbacks dw w t).rcell ce').cellWidth ce'.hgt := by
    unfold World.rcell; rw [h1, dimProps_eq]
  have e2 : (dimProps dw ((invokeRenderCallbacks dw w t).item ce'.item) ce').2 =
      .lws ((invokeRenderCallbacks dw w t).rcell ce').lws := by
    unfold World.rcell; rw [h2, dimProps_eq]
  rcases hfit with ⟨ha, hb⟩ | ⟨ha, hb⟩
  · exact dimProps_fits_measured dw _ ce' _ _ e1 e2 ha hb
  · exact dimProps_fits_single_declared dw _ ce' _ _ e1 e2 ha hb

end E2Ecb
end Tab
