/- C11, history level — `raisedBy` of the composite operations as static sums. -/
import Tabmodel.Proofs.C11hS2
namespace Tab
namespace World

theorem rowAddCellPre_cells (w : World) (r : Nat) (ce : Cell) (cs : List Cell)
    (hc : (w.row r).cells = some cs) : ∃ cs', ((rowAddCellPre w r ce cs).row r).cells = some cs' := by
  have key : ∃ cs', ((w.modRow r (fun rw =>
      { rw with cells := some (cs ++ [{ ce with inRow := some r, columnNum := cs.length + 1 }]) })).row r).cells
        = some cs' := by
    rw [row_modRow]
    split
    · exact ⟨_, rfl⟩
    · exact ⟨cs, hc⟩
  unfold rowAddCellPre
  simp only
  split
  · rw [row_modTable]; exact key
  · exact key

/-- a row without add-time cell callbacks raises nothing when cells are added to it -/
theorem rowAddManyK_quiet (dw : Measure) (e r : Nat) (is : List Nat) (c : Cnt)
    (hcb : (c.1.row r).cellCbs.at .add = []) (hc : ∃ cs, (c.1.row r).cells = some cs) :
    (rowAddManyK dw e r is c).2 = c.2 := by
  induction is generalizing c with
  | nil => rfl
  | cons i is ih =>
    rw [rowAddManyK]
    obtain ⟨cs, hcs⟩ := hc
    have hpre : ((rowAddCellPre c.1 r (newCell dw i (c.1.item i)) cs).row r).cellCbs.at .add = [] := by
      rw [rowAddCellPre_cellCbs]; exact hcb
    have hstep : rowAddCellK dw e c r (newCell dw i (c.1.item i))
        = (rowAddCellPre c.1 r (newCell dw i (c.1.item i)) cs, c.2) := by
      unfold rowAddCellK
      simp only [hcs]
      exact invokeK_nil dw e _ _ _ _ hpre
    rw [hstep]
    exact ih _ hpre (rowAddCellPre_cells c.1 r _ cs hcs)

theorem raised_addRow (dw : Measure) (w : World) (t r e : Nat) :
    raisedBy dw w (.addRow t r) e = addCbsCount (addRowCore w t r) e t r true := by
  have := addRowK_static dw e 0 w t r
  simpa [raisedBy, applyOpK] using this

theorem raised_render (dw : Measure) (w : World) (t e : Nat) :
    raisedBy dw w (.render t) e = renderCount w e t := by
  have := renderK_static dw e 0 w t
  simpa [raisedBy, applyOpK] using this

theorem raised_appendNewRow (dw : Measure) (w : World) (t e : Nat) :
    raisedBy dw w (.appendNewRow t) e
      = addCbsCount (addRowCore (w.newRow {}).1 t w.rows.length) e t w.rows.length true := by
  have := addRowK_static dw e 0 (w.newRow {}).1 t w.rows.length
  simpa [raisedBy, applyOpK] using this

theorem raised_addRowItems (dw : Measure) (w : World) (t : Nat) (items : List Nat) (e : Nat) :
    raisedBy dw w (.addRowItems t items) e
      = addCbsCount (addRowCore (rowAddMany dw w.rows.length items (w.newRow {}).1) t w.rows.length)
          e t w.rows.length true := by
  have hq := rowAddManyK_quiet dw e w.rows.length items ((w.newRow {}).1, 0)
    (by simp only [row_newRow_self]; rfl) ⟨[], by simp only [row_newRow_self]⟩
  have h1 := rowAddManyK_fst dw e w.rows.length items ((w.newRow {}).1, 0)
  have hc : rowAddManyK dw e w.rows.length items ((w.newRow {}).1, 0)
      = (rowAddMany dw w.rows.length items (w.newRow {}).1, 0) := Prod.ext h1 hq
  have := addRowK_static dw e 0 (rowAddMany dw w.rows.length items (w.newRow {}).1) t w.rows.length
  simp only [raisedBy, applyOpK, hc]
  simpa using this

/-- the world in which `addHeaders` runs its add-time callbacks: the header row built, and set -/
def hdrW4 (dw : Measure) (w : World) (t : Nat) (items : List Nat) : World :=
  (rowAddMany dw w.rows.length items
    ((w.modTable t (fun tb => resizeColumnsAtLeast tb items.length)).newRow { ec := .table t }).1).modTable t
    (fun tb => { tb with header := some w.rows.length })

theorem raised_addHeaders (dw : Measure) (w : World) (t : Nat) (items : List Nat) (e : Nat) :
    raisedBy dw w (.addHeaders t items) e
      = addCbsCount (hdrW4 dw w t items) e t w.rows.length false := by
  have hq := rowAddManyK_quiet dw e w.rows.length items (hdrW2 w t items.length, 0)
    (by simp only [hdrW2_row_self]; rfl) ⟨[], by simp only [hdrW2_row_self]⟩
  have h1 := rowAddManyK_fst dw e w.rows.length items (hdrW2 w t items.length, 0)
  have hc : rowAddManyK dw e w.rows.length items (hdrW2 w t items.length, 0)
      = (rowAddMany dw w.rows.length items (hdrW2 w t items.length), 0) := Prod.ext h1 hq
  simp only [raisedBy, applyOpK]
  rw [addHeadersK_eq, hc]
  simp only
  obtain ⟨s1, n1⟩ := invokeK_static dw e (hdrW4 dw w t items, 0)
    (fun w => (w.table t).rowCbs.at .add) (.row w.rows.length) (fun _ => .table t)
    (Same.refl _) (fun w' hw => by simp only [same_table_rowCbs hw])
  obtain ⟨_, n2⟩ := addTimeCellsK_static dw e t w.rows.length (fun _ => .table t)
    ((invokeK dw e (hdrW4 dw w t items, 0) (fun w => (w.table t).rowCbs.at .add) (.row w.rows.length)
      (fun _ => .table t)).1.rowCells w.rows.length).length 0 _ s1
  have hW : (rowAddMany dw w.rows.length items (hdrW2 w t items.length)).modTable t
      (fun tb => { tb with header := some w.rows.length }) = hdrW4 dw w t items := rfl
  rw [hW, n2, n1, same_rowCells_length s1]
  simp [addCbsCount]

end World
end Tab
