/-
  C03h helpers, part 2: what `Cell.Update` establishes for a plain / fitting item, and the two
  history invariants (`PlainItems` ⇒ every cell `Measured`; `FitItems` ⇒ every cell `FitsSrc` for
  the item the store currently holds under its id).
-/
import Tabmodel.Proofs.C03hCells
import Tabmodel.Props.C18
import Tabmodel.Proofs.TextDims
namespace Tab
namespace C03h
open World

/-! ### one cell -/

theorem update_item (dw : Measure) (it : Item) (c : Cell) : (c.update dw it).item = c.item := by
  unfold Cell.update; split <;> rfl

theorem update_str (dw : Measure) (it : Item) (c : Cell) : (c.update dw it).str = textForm it := by
  unfold Cell.update textForm Item.switchText
  cases it.kind <;> rfl

theorem notNested {it : Item} (h : it.isNested = false) : ∀ s w h e, it.kind ≠ .cell s w h e := by
  intro s w h' e hk
  unfold Item.isNested at h
  rw [hk] at h
  cases h

theorem longestLine_nil (dw : Measure) : longestLine dw [] = 0 := by simp [longestLine, tt_lines_nil]

/-- the height `Update` computes for an item that declares none is the number of lines of the text -/
theorem sizeHeight_plain (it : Item) (hh : it.mHeight = none) (str : Bytes) :
    sizeHeight it str = (((lines str).length : Nat) : Int) := by
  unfold sizeHeight
  rw [hh]
  by_cases hs : str = []
  · subst hs; simp [tt_lines_nil]
  · have hb : (str == []) = false := by simpa using hs
    have hpos := lines_pos hs
    rw [lines_length str hs]
    simp only [hb, Bool.false_eq_true, if_false]
    cases hsuf : hasSuffixLF str with
    | false => simp
    | true =>
      simp only [hsuf, if_true] at hpos ⊢
      omega

theorem update_measured (dw : Measure) (it : Item) (c : Cell) (hp : it.isPlain) :
    (c.update dw it).Measured dw := by
  obtain ⟨hw, hh, hn⟩ := hp
  refine ⟨update_width_measured dw it c (notNested hn) hw, ?_⟩
  unfold Cell.update
  cases hk : it.kind with
  | nil => simp [tt_lines_nil]
  | cell s w h e => exact absurd hk (notNested hn s w h e)
  | str s => exact sizeHeight_plain it hh _
  | rune r => exact sizeHeight_plain it hh _
  | other => exact sizeHeight_plain it hh _

theorem update_fitsSrc (dw : Measure) (it : Item) (c : Cell) (hf : it.Fits dw) :
    Cell.FitsSrc dw it (c.update dw it) := by
  unfold Item.Fits at hf
  cases hw : it.mWidth with
  | some x =>
    rw [hw] at hf
    right
    refine ⟨by rw [hw]; rfl, ?_⟩
    unfold Cell.lines
    rw [update_str]
    exact hf
  | none =>
    rw [hw] at hf
    left
    refine ⟨hw, ?_⟩
    cases hk : it.kind with
    | cell s w h e =>
      rw [hk] at hf
      unfold Cell.update
      simp only [hk]
      exact hf
    | nil => exact update_width_measured dw it c (fun _ _ _ _ e => by rw [hk] at e; cases e) hw
    | str s => exact update_width_measured dw it c (fun _ _ _ _ e => by rw [hk] at e; cases e) hw
    | rune r => exact update_width_measured dw it c (fun _ _ _ _ e => by rw [hk] at e; cases e) hw
    | other => exact update_width_measured dw it c (fun _ _ _ _ e => by rw [hk] at e; cases e) hw

theorem isPlain_fits (dw : Measure) {it : Item} (hp : it.isPlain) : it.Fits dw := by
  obtain ⟨hw, _, hn⟩ := hp
  unfold Item.Fits
  rw [hw]
  cases hk : it.kind with
  | cell s w h e => exact absurd hk (notNested hn s w h e)
  | _ => trivial

theorem default_isPlain : (default : Item).isPlain := by decide

theorem getD_all {P : Item → Prop} (hd : P default) {s : List Item} (h : ∀ it ∈ s, P it) (i : Nat) :
    P (s.getD i default) := by
  rw [List.getD_eq_getElem?_getD]
  cases hi : s[i]? with
  | none => exact hd
  | some it => exact h it (List.mem_of_getElem? hi)

theorem fitsSrc_congr {dw : Measure} {it it' : Item} {ce : Cell}
    (h : it'.mWidth.isSome = it.mWidth.isSome) (hf : Cell.FitsSrc dw it ce) : Cell.FitsSrc dw it' ce := by
  unfold Cell.FitsSrc at hf ⊢
  rcases hf with ⟨h1, h2⟩ | ⟨h1, h2⟩
  · left
    refine ⟨?_, h2⟩
    rw [h1] at h
    cases hm : it'.mWidth with
    | none => rfl
    | some x => rw [hm] at h; cases h
  · right; exact ⟨h.trans h1, h2⟩

/-! ### `SigInv` of the two cell predicates -/

theorem sigInv_measured (dw : Measure) : SigInv (Cell.Measured dw) := by
  intro a b e h
  simp only [sig, Prod.mk.injEq] at e
  obtain ⟨_, e2, e3, e4⟩ := e
  unfold Cell.Measured at h ⊢
  rw [← e2, ← e3, ← e4]
  exact h

/-- the cell predicate of the `FitItems` invariant -/
def FitQ (dw : Measure) (s : List Item) (u : List Nat) (ce : Cell) : Prop :=
  ce.item ∈ u ∧ Cell.FitsSrc dw (s.getD ce.item default) ce

theorem sigInv_fitQ (dw : Measure) (s : List Item) (u : List Nat) : SigInv (FitQ dw s u) := by
  intro a b e h
  simp only [sig, Prod.mk.injEq] at e
  obtain ⟨e1, e2, e3, _⟩ := e
  unfold FitQ Cell.FitsSrc Cell.lines at h ⊢
  rw [← e1, ← e2, ← e3]
  exact h

/-! ### plain histories -/

def PlainInv (dw : Measure) (w : World) : Prop :=
  (∀ it ∈ w.items, it.isPlain) ∧ CellsAll (Cell.Measured dw) w

theorem PlainInv.item {dw : Measure} {w : World} (h : PlainInv dw w) (i : Nat) : (w.item i).isPlain :=
  getD_all default_isPlain h.1 i

theorem plainInv_step (dw : Measure) {w : World} (op : BuildOp) (hop : op.PlainStep dw) (h : PlainInv dw w) :
    PlainInv dw (applyOp dw w op) := by
  constructor
  · rw [items_applyOp]
    cases op with
    | setItems its => exact hop
    | _ => exact h.1
  · apply cellsAll_applyOp (sigInv_measured dw) dw op _ _ _ h.2
    · intro i _ _
      exact update_measured dw _ _ (h.item i)
    · intro r ce e
      subst e
      exact hop
    · intro _ _ _ ce _
      exact update_measured dw _ _ (h.item _)

theorem plainInv_runFrom (dw : Measure) (ops : List BuildOp) {w : World} (hops : PlainItems dw ops)
    (h : PlainInv dw w) : PlainInv dw (runFrom dw w ops) := by
  unfold runFrom
  induction ops generalizing w with
  | nil => exact h
  | cons op ops ih =>
    exact ih (fun o ho => hops o (List.mem_cons_of_mem _ ho))
      (plainInv_step dw op (hops op List.mem_cons_self) h)

theorem plainInv_run (dw : Measure) (ops : List BuildOp) (hops : PlainItems dw ops) :
    PlainInv dw (run dw ops) :=
  plainInv_runFrom dw ops hops ⟨fun _ h => (List.not_mem_nil h).elim, cellsAll_empty⟩

/-! ### fitting histories -/

def FitInv (dw : Measure) (s : List Item) (u : List Nat) (w : World) : Prop :=
  w.items = s ∧ (∀ it ∈ s, it.Fits dw) ∧ CellsAll (FitQ dw s u) w

theorem FitInv.item {dw : Measure} {s : List Item} {u : List Nat} {w : World} (h : FitInv dw s u w) (i : Nat) :
    w.item i = s.getD i default ∧ (w.item i).Fits dw := by
  have e : w.item i = s.getD i default := by unfold World.item; rw [h.1]
  exact ⟨e, e ▸ getD_all (isPlain_fits dw default_isPlain) h.2.1 i⟩

theorem fitInv_step (dw : Measure) {s : List Item} {u : List Nat} {w : World} (op : BuildOp)
    (hop : op.FitStep dw s u) (h : FitInv dw s u w) :
    FitInv dw (op.storeAfter s) (op.madeFrom ++ u) (applyOp dw w op) := by
  refine ⟨by rw [items_applyOp, h.1], ?_, ?_⟩
  · cases op with
    | setItems its => exact hop.1
    | _ => exact h.2.1
  · -- first: the operation keeps the predicate of the OLD store, with the new ids in use
    have h1 : CellsAll (FitQ dw s (op.madeFrom ++ u)) (applyOp dw w op) := by
      apply cellsAll_applyOp (sigInv_fitQ dw s _) dw op _ _ _
        (h.2.2.mono (fun ce hce => ⟨List.mem_append_right _ hce.1, hce.2⟩))
      · intro i hi _
        refine ⟨List.mem_append_left _ (by unfold newCell; rw [update_item]; exact hi), ?_⟩
        unfold newCell
        rw [update_item, ← (h.item i).1]
        exact update_fitsSrc dw _ _ (h.item i).2
      · intro r ce e
        subst e
        exact ⟨List.mem_append_left _ List.mem_cons_self, hop⟩
      · intro _ _ _ ce hce
        refine ⟨by rw [update_item]; exact hce.1, ?_⟩
        rw [update_item, ← (h.item ce.item).1]
        exact update_fitsSrc dw _ _ (h.item ce.item).2
    -- then: a new store does not change whether an id in use declares a width
    cases op with
    | setItems its =>
      apply h1.mono
      intro ce hce
      refine ⟨hce.1, ?_⟩
      have hu : ce.item ∈ u := by simpa [BuildOp.madeFrom] using hce.1
      exact fitsSrc_congr (hop.2 ce.item hu) hce.2
    | _ => exact h1

theorem fitInv_runFrom (dw : Measure) (ops : List BuildOp) {s : List Item} {u : List Nat} {w : World}
    (hops : fitFrom dw s u ops) (h : FitInv dw s u w) :
    FitInv dw (finalStore s ops) (finalUsed u ops) (runFrom dw w ops) := by
  unfold runFrom finalStore finalUsed
  induction ops generalizing s u w with
  | nil => exact h
  | cons op ops ih => exact ih hops.2 (fitInv_step dw op hops.1 h)

theorem fitInv_run (dw : Measure) (ops : List BuildOp) (hops : FitItems dw ops) :
    FitInv dw (finalStore [] ops) (finalUsed [] ops) (run dw ops) :=
  fitInv_runFrom dw ops hops ⟨rfl, fun _ h => (List.not_mem_nil h).elim, cellsAll_empty⟩

theorem fitFrom_append (dw : Measure) (ops ops' : List BuildOp) (s : List Item) (u : List Nat) :
    fitFrom dw s u (ops ++ ops') ↔
      fitFrom dw s u ops ∧ fitFrom dw (finalStore s ops) (finalUsed u ops) ops' := by
  induction ops generalizing s u with
  | nil => simp [fitFrom, finalStore, finalUsed]
  | cons op ops ih =>
    simp only [List.cons_append, fitFrom, ih, finalStore, finalUsed, List.foldl_cons, and_assoc]

/-- plain histories are fitting histories -/
theorem fitFrom_of_plain (dw : Measure) (ops : List BuildOp) (s : List Item) (u : List Nat)
    (hs : ∀ it ∈ s, it.isPlain) (hops : PlainItems dw ops) : fitFrom dw s u ops := by
  induction ops generalizing s u with
  | nil => trivial
  | cons op ops ih =>
    have hop : op.PlainStep dw := hops op List.mem_cons_self
    have hrest : PlainItems dw ops := fun o ho => hops o (List.mem_cons_of_mem _ ho)
    refine ⟨?_, ih _ _ ?_ hrest⟩
    · cases op with
      | setItems its =>
        refine ⟨fun it hit => isPlain_fits dw (hop it hit), fun i _ => ?_⟩
        rw [(getD_all default_isPlain hop i).1, (getD_all default_isPlain hs i).1]
      | rowAddCell r ce =>
        exact Or.inl ⟨(getD_all default_isPlain hs ce.item).1, hop.1⟩
      | _ => trivial
    · cases op with
      | setItems its => exact hop
      | _ => exact hs

end C03h
end Tab
