/-
  C03h helpers, part 1: a predicate on cells that reads only a cell's item id, text and cached sizes
  (`SigInv`) and holds of every cell of every row and of every by-value copy (`CellsAll`) is kept by
  every primitive world update, by every callback invocation, and by every operation of the API —
  provided the cells the operation creates (`newCell`), is handed (`rowAddCell`) or re-reads
  (`Cell.update`) satisfy it.
-/
import Tabmodel.Proofs.C03hDefs
import Tabmodel.Proofs.E2EcbPass
namespace Tab
namespace C03h
open World

/-- what `Cell.Update` caches of the item, with the item's id -/
def sig (c : Cell) : Nat × Bytes × Int × Int := (c.item, c.str, c.width, c.height)

/-- `Q` reads only the signature -/
def SigInv (Q : Cell → Prop) : Prop := ∀ a b : Cell, sig a = sig b → Q a → Q b

def RowAll (Q : Cell → Prop) (rw : Row) : Prop := ∀ ce ∈ rw.cells.getD [], Q ce

/-- every cell of every row in the store (attached or not, header or not) and every copy -/
def CellsAll (Q : Cell → Prop) (w : World) : Prop :=
  (∀ rw ∈ w.rows, RowAll Q rw) ∧ ∀ ce ∈ w.copies, Q ce

variable {Q : Cell → Prop}

theorem rowAll_default : RowAll Q {} := by
  intro ce h; simp at h

theorem CellsAll.row {w : World} (h : CellsAll Q w) (r : Nat) : RowAll Q (w.row r) := by
  unfold World.row
  rw [List.getD_eq_getElem?_getD]
  cases hr : w.rows[r]? with
  | none => exact rowAll_default
  | some rw => exact h.1 rw (List.mem_of_getElem? hr)

theorem CellsAll.rowCells {w : World} (h : CellsAll Q w) (r : Nat) : ∀ ce ∈ w.rowCells r, Q ce :=
  h.row r

theorem CellsAll.cell? {w : World} (h : CellsAll Q w) {r c : Nat} {ce : Cell} (hc : w.cell? r c = some ce) :
    Q ce := h.rowCells r ce (List.mem_of_getElem? hc)

theorem CellsAll.mono {Q' : Cell → Prop} {w : World} (h : CellsAll Q w) (hq : ∀ ce, Q ce → Q' ce) :
    CellsAll Q' w :=
  ⟨fun rw hrw ce hce => hq ce (h.1 rw hrw ce hce), fun ce hce => hq ce (h.2 ce hce)⟩

theorem cellsAll_empty : CellsAll Q {} :=
  ⟨fun _ h => (List.not_mem_nil h).elim, fun _ h => (List.not_mem_nil h).elim⟩

theorem mem_modify {α : Type} (f : α → α) (l : List α) (i : Nat) (a : α) (h : a ∈ l.modify i f) :
    a ∈ l ∨ ∃ b ∈ l, a = f b := by
  obtain ⟨j, hj⟩ := List.getElem?_of_mem h
  rw [List.getElem?_modify] at hj
  cases hl : l[j]? with
  | none => rw [hl] at hj; simp at hj
  | some b =>
    rw [hl] at hj
    have hb : b ∈ l := List.mem_of_getElem? hl
    by_cases hij : i = j
    · simp [hij] at hj; exact .inr ⟨b, hb, hj.symm⟩
    · simp [hij] at hj; exact .inl (hj ▸ hb)

/-! ### primitive updates -/

theorem cellsAll_events {w : World} (es : List Event) (h : CellsAll Q w) :
    CellsAll Q ({ w with events := es } : World) := h

theorem cellsAll_items {w : World} (its : List Item) (h : CellsAll Q w) :
    CellsAll Q ({ w with items := its } : World) := h

theorem cellsAll_modTable {w : World} (t : Nat) (f : Table → Table) (h : CellsAll Q w) :
    CellsAll Q (w.modTable t f) := h

theorem cellsAll_modColumn {w : World} (t n : Nat) (f : Column → Column) (h : CellsAll Q w) :
    CellsAll Q (w.modColumn t n f) := h

theorem cellsAll_modRow {w : World} (r : Nat) (f : Row → Row) (hf : ∀ rw, RowAll Q rw → RowAll Q (f rw))
    (h : CellsAll Q w) : CellsAll Q (w.modRow r f) := by
  refine ⟨?_, h.2⟩
  intro rw hrw
  rcases mem_modify f w.rows r rw hrw with h1 | ⟨b, hb, rfl⟩
  · exact h.1 rw h1
  · exact hf b (h.1 b hb)

theorem rowAll_of_cells_eq {rw rw' : Row} (e : rw'.cells = rw.cells) (h : RowAll Q rw) : RowAll Q rw' := by
  unfold RowAll; rw [e]; exact h

theorem cellsAll_modRow_cells {w : World} (r : Nat) (f : Row → Row) (hf : ∀ rw, (f rw).cells = rw.cells)
    (h : CellsAll Q w) : CellsAll Q (w.modRow r f) :=
  cellsAll_modRow r f (fun rw hrw => rowAll_of_cells_eq (hf rw) hrw) h

theorem cellsAll_modCell {w : World} (r c : Nat) (g : Cell → Cell) (hg : ∀ ce, Q ce → Q (g ce))
    (h : CellsAll Q w) : CellsAll Q (w.modCell r c g) := by
  apply cellsAll_modRow r _ _ h
  intro rw hrw ce hce
  cases hc : rw.cells with
  | none => simp [hc] at hce
  | some cs =>
    simp only [hc, Option.map_some, Option.getD_some] at hce
    have hcs : ∀ x ∈ cs, Q x := by
      intro x hx; apply hrw; simp [hc, hx]
    rcases mem_modify g cs c ce hce with h1 | ⟨b, hb, rfl⟩
    · exact hcs ce h1
    · exact hg b (hcs b hb)

theorem cellsAll_modCopy {w : World} (n : Nat) (g : Cell → Cell) (hg : ∀ ce, Q ce → Q (g ce))
    (h : CellsAll Q w) : CellsAll Q ({ w with copies := w.copies.modify n g } : World) := by
  refine ⟨h.1, ?_⟩
  intro ce hce
  rcases mem_modify g w.copies n ce hce with h1 | ⟨b, hb, rfl⟩
  · exact h.2 ce h1
  · exact hg b (h.2 b hb)

theorem cellsAll_setProp (hQ : SigInv Q) {w : World} (o : Target) (k : Key) (v : Option Val)
    (h : CellsAll Q w) : CellsAll Q (w.setProp o k v) := by
  cases o with
  | table t => exact h
  | column t n => exact h
  | row r => exact cellsAll_modRow r _ (fun rw hrw => rowAll_of_cells_eq rfl hrw) h
  | cell r c => exact cellsAll_modCell r c _ (fun ce hce => hQ ce _ rfl hce) h
  | copy n => exact cellsAll_modCopy n _ (fun ce hce => hQ ce _ rfl hce) h

theorem cellsAll_addErrTo {w : World} (tk : Taker) (e : Nat) (h : CellsAll Q w) :
    CellsAll Q (w.addErrTo tk e) := by
  unfold World.addErrTo
  cases tk with
  | drop => exact h
  | table t => exact h
  | rowOwn r =>
    apply cellsAll_modRow r _ _ h
    intro rw hrw
    split
    · exact rowAll_of_cells_eq rfl hrw
    · exact hrw
  | rowLazy r =>
    dsimp only
    split
    · exact cellsAll_modRow r _ (fun rw hrw => rowAll_of_cells_eq rfl hrw) h
    · exact cellsAll_modRow r _ (fun rw hrw => rowAll_of_cells_eq rfl hrw) h
    · exact h

/-! ### callbacks -/

theorem cellsAll_invokeOne (hQ : SigInv Q) (dw : Measure) {w : World} (cb : Cb) (tgt : Target) (tk : Taker)
    (h : CellsAll Q w) : CellsAll Q (invokeOne dw w cb tgt tk) :=
  E2Ecb.invokeOne_frame (P := CellsAll Q) dw w cb tgt tk
    (fun _ es h => cellsAll_events es h) (fun _ k v h => cellsAll_setProp hQ tgt k v h)
    (fun _ e h => cellsAll_addErrTo tk e h) h

theorem cellsAll_invoke (hQ : SigInv Q) (dw : Measure) (cbs : List Cb) (tgt : Target) (tk : Taker)
    {w : World} (h : CellsAll Q w) : CellsAll Q (invoke dw w cbs tgt tk) := by
  unfold invoke
  induction cbs generalizing w with
  | nil => exact h
  | cons cb cbs ih => exact ih (cellsAll_invokeOne hQ dw cb tgt tk h)

theorem items_invoke (dw : Measure) (cbs : List Cb) (tgt : Target) (tk : Taker) (w : World) :
    (invoke dw w cbs tgt tk).items = w.items := by
  unfold invoke
  induction cbs generalizing w with
  | nil => rfl
  | cons cb cbs ih => rw [List.foldl_cons, ih, E2Ecb.items_invokeOne]

/-! ### building -/

theorem cellsAll_newRow {w : World} (rw : Row) (hrw : RowAll Q rw) (h : CellsAll Q w) :
    CellsAll Q (w.newRow rw).1 := by
  refine ⟨?_, h.2⟩
  intro rw' hm
  rcases List.mem_append.mp hm with h1 | h1
  · exact h.1 rw' h1
  · rw [List.mem_singleton.mp h1]; exact hrw

theorem rowAll_nil : RowAll Q { cells := none } := by intro ce h; simp at h
theorem rowAll_sep : RowAll Q { cells := none, isSep := true } := by intro ce h; simp at h
theorem rowAll_ec (ec : ECRef) : RowAll Q { ec := ec } := by intro ce h; simp at h

theorem cellsAll_newTable {w : World} (h : CellsAll Q w) : CellsAll Q w.newTable.1 := h

theorem cellsAll_rowAddCell (hQ : SigInv Q) (dw : Measure) {w : World} (r : Nat) (ce : Cell) (hce : Q ce)
    (h : CellsAll Q w) : CellsAll Q (w.rowAddCell dw r ce) := by
  unfold World.rowAddCell
  cases hc : (w.row r).cells with
  | none => exact cellsAll_addErrTo _ _ h
  | some cs =>
    dsimp only
    apply cellsAll_invoke hQ
    have h1 : CellsAll Q (w.modRow r (fun rw =>
        { rw with cells := some (cs ++ [{ ce with inRow := some r, columnNum := cs.length + 1 }]) })) := by
      apply cellsAll_modRow r _ _ h
      intro rw _ x hx
      simp only [Option.getD_some, List.mem_append, List.mem_singleton] at hx
      rcases hx with hx | rfl
      · exact h.row r x (by rw [hc]; exact hx)
      · exact hQ ce _ rfl hce
    split
    · exact cellsAll_modTable _ _ h1
    · exact h1

theorem items_rowAddCell (dw : Measure) (w : World) (r : Nat) (ce : Cell) :
    (w.rowAddCell dw r ce).items = w.items := by
  unfold World.rowAddCell
  cases (w.row r).cells with
  | none => exact E2Ecb.items_addErrTo _ _ _
  | some cs =>
    dsimp only
    rw [items_invoke]
    split <;> rfl

theorem cellsAll_rowAdd (hQ : SigInv Q) (dw : Measure) {w : World} (r i : Nat)
    (hnew : Q (newCell dw i (w.item i))) (h : CellsAll Q w) : CellsAll Q (w.rowAdd dw r i) :=
  cellsAll_rowAddCell hQ dw r _ hnew h

theorem item_congr {w w' : World} (h : w'.items = w.items) (i : Nat) : w'.item i = w.item i := by
  unfold World.item; rw [h]

theorem rowAddMany_keeps (hQ : SigInv Q) (dw : Measure) (r : Nat) (is : List Nat) {w : World}
    (hnew : ∀ i ∈ is, Q (newCell dw i (w.item i))) (h : CellsAll Q w) :
    CellsAll Q (rowAddMany dw r is w) ∧ (rowAddMany dw r is w).items = w.items := by
  induction is generalizing w with
  | nil => exact ⟨h, rfl⟩
  | cons i is ih =>
    have hit : (w.rowAdd dw r i).items = w.items := items_rowAddCell dw w r _
    have := ih (w := w.rowAdd dw r i)
      (fun j hj => by rw [item_congr hit]; exact hnew j (List.mem_cons_of_mem _ hj))
      (cellsAll_rowAdd hQ dw r i (hnew i List.mem_cons_self) h)
    exact ⟨this.1, this.2.trans hit⟩

theorem cellsAll_addTimeCells (hQ : SigInv Q) (dw : Measure) (t r : Nat) (colTaker : World → Taker)
    (n i : Nat) {w : World} (h : CellsAll Q w) : CellsAll Q (addTimeCells dw t r colTaker n i w) := by
  induction n generalizing i w with
  | zero => exact h
  | succ n ih =>
    unfold addTimeCells
    exact ih _ (cellsAll_invoke hQ dw _ _ _ (cellsAll_invoke hQ dw _ _ _ h))

theorem cellsAll_addRow (hQ : SigInv Q) (dw : Measure) (t r : Nat) {w : World} (h : CellsAll Q w) :
    CellsAll Q (w.addRow dw t r) := by
  unfold World.addRow
  apply cellsAll_addTimeCells hQ
  apply cellsAll_invoke hQ
  apply cellsAll_invoke hQ
  refine cellsAll_modRow_cells _ _ ?_ ?_
  · exact fun _ => rfl
  apply cellsAll_modTable
  apply cellsAll_modTable
  refine cellsAll_modRow_cells _ _ ?_ ?_
  · exact fun _ => rfl
  apply cellsAll_modTable
  exact h

theorem cellsAll_addSeparator {w : World} (t : Nat) (h : CellsAll Q w) : CellsAll Q (w.addSeparator t) := by
  unfold World.addSeparator
  refine cellsAll_modRow_cells _ _ ?_ ?_
  · exact fun _ => rfl
  apply cellsAll_modTable
  exact cellsAll_newRow _ rowAll_sep h

theorem cellsAll_addHeaders (hQ : SigInv Q) (dw : Measure) (t : Nat) (is : List Nat) {w : World}
    (hnew : ∀ i ∈ is, Q (newCell dw i (w.item i))) (h : CellsAll Q w) :
    CellsAll Q (w.addHeaders dw t is) := by
  unfold World.addHeaders
  apply cellsAll_addTimeCells hQ
  apply cellsAll_invoke hQ
  apply cellsAll_modTable
  refine (rowAddMany_keeps hQ dw _ is ?_ ?_).1
  · exact hnew
  · exact cellsAll_newRow _ (rowAll_ec _) (cellsAll_modTable _ _ h)

theorem cellsAll_addRowItems (hQ : SigInv Q) (dw : Measure) (t : Nat) (is : List Nat) {w : World}
    (hnew : ∀ i ∈ is, Q (newCell dw i (w.item i))) (h : CellsAll Q w) :
    CellsAll Q (w.addRowItems dw t is).1 := by
  unfold World.addRowItems
  apply cellsAll_addRow hQ
  refine (rowAddMany_keeps hQ dw _ is ?_ ?_).1
  · exact hnew
  · exact cellsAll_newRow _ rowAll_default h

theorem cellsAll_appendNewRow (hQ : SigInv Q) (dw : Measure) (t : Nat) {w : World} (h : CellsAll Q w) :
    CellsAll Q (w.appendNewRow dw t).1 := by
  unfold World.appendNewRow
  exact cellsAll_addRow hQ dw t _ (cellsAll_newRow _ rowAll_default h)

/-! ### the render-time pass -/

theorem cellsAll_renderCells (hQ : SigInv Q) (dw : Measure) (t r : Nat) (n i : Nat) {w : World}
    (h : CellsAll Q w) : CellsAll Q (renderCells dw t r n i w) := by
  induction n generalizing i w with
  | zero => exact h
  | succ n ih =>
    unfold renderCells
    apply ih
    iterate 8 apply cellsAll_invoke hQ
    exact h

theorem cellsAll_renderRow (hQ : SigInv Q) (dw : Measure) (t : Nat) {w : World} (r : Nat)
    (h : CellsAll Q w) : CellsAll Q (renderRow dw t w r) := by
  unfold renderRow
  apply cellsAll_invoke hQ
  apply cellsAll_renderCells hQ
  exact cellsAll_invoke hQ dw _ _ _ h

theorem cellsAll_renderColumns (hQ : SigInv Q) (dw : Measure) (t : Nat) (tm : Time) (n i : Nat) {w : World}
    (h : CellsAll Q w) : CellsAll Q (renderColumns dw t tm n i w) := by
  induction n generalizing i w with
  | zero => exact h
  | succ n ih =>
    unfold renderColumns
    exact ih _ (cellsAll_invoke hQ dw _ _ _ h)

theorem cellsAll_foldl_renderRow (hQ : SigInv Q) (dw : Measure) (t : Nat) (rs : List Nat) {w : World}
    (h : CellsAll Q w) : CellsAll Q (rs.foldl (renderRow dw t) w) := by
  induction rs generalizing w with
  | nil => exact h
  | cons r rs ih => exact ih (cellsAll_renderRow hQ dw t r h)

theorem cellsAll_irc (hQ : SigInv Q) (dw : Measure) (t : Nat) {w : World} (h : CellsAll Q w) :
    CellsAll Q (invokeRenderCallbacks dw w t) := by
  unfold invokeRenderCallbacks
  apply cellsAll_invoke hQ
  apply cellsAll_renderColumns hQ
  apply cellsAll_foldl_renderRow hQ
  have h1 := cellsAll_renderColumns hQ dw t .pre
    ((invoke dw w ((w.table t).selfCbs.at .pre) (.table t) (.table t)).table t).columns.length 0
    (cellsAll_invoke hQ dw ((w.table t).selfCbs.at .pre) (.table t) (.table t) h)
  split
  · exact cellsAll_renderRow hQ dw t _ h1
  · exact h1

/-! ### registration -/

theorem cellsAll_registerCb (hQ : SigInv Q) {w w' : World} (o : Target) (tm : Time) (tg : CbTarget) (cb : Cb)
    (e : w.registerCb o tm tg cb = some w') (h : CellsAll Q w) : CellsAll Q w' := by
  cases o <;> cases tg <;> simp only [World.registerCb, Option.some.injEq, reduceCtorEq] at e <;>
    subst e <;> first
      | exact h
      | exact cellsAll_modRow_cells _ _ (fun _ => rfl) h
      | exact cellsAll_modCell _ _ _ (fun ce hce => hQ ce _ rfl hce) h
      | exact cellsAll_modCopy _ _ (fun ce hce => hQ ce _ rfl hce) h

/-! ### one operation of a history -/

/-- every operation keeps `CellsAll Q`, given `Q` of the cells it creates, is handed, or re-reads -/
theorem cellsAll_applyOp (hQ : SigInv Q) (dw : Measure) {w : World} (op : BuildOp)
    (hnew : ∀ i ∈ op.madeFrom, (∀ r ce, op ≠ .rowAddCell r ce) → Q (newCell dw i (w.item i)))
    (hadd : ∀ r ce, op = .rowAddCell r ce → Q ce)
    (hupd : ∀ r c, op = .updateCell r c → ∀ ce, Q ce → Q (ce.update dw (w.item ce.item)))
    (h : CellsAll Q w) : CellsAll Q (applyOp dw w op) := by
  cases op with
  | newTable => exact h
  | addHeaders t items =>
    exact cellsAll_addHeaders hQ dw t items (fun i hi => hnew i hi (fun _ _ e => by cases e)) h
  | addRowItems t items =>
    exact cellsAll_addRowItems hQ dw t items (fun i hi => hnew i hi (fun _ _ e => by cases e)) h
  | newRow => exact cellsAll_newRow _ rowAll_default h
  | zeroRow => exact cellsAll_newRow _ rowAll_nil h
  | appendNewRow t => exact cellsAll_appendNewRow hQ dw t h
  | rowAdd r i =>
    exact cellsAll_rowAdd hQ dw r i (hnew i List.mem_cons_self (fun _ _ e => by cases e)) h
  | rowAddCell r ce => exact cellsAll_rowAddCell hQ dw r ce (hadd r ce rfl) h
  | addRow t r => exact cellsAll_addRow hQ dw t r h
  | addSeparator t => exact cellsAll_addSeparator t h
  | regCb o tm tg cb =>
    show CellsAll Q ((w.registerCb o tm tg cb).getD w)
    cases e : w.registerCb o tm tg cb with
    | none => exact h
    | some w' => exact cellsAll_registerCb hQ o tm tg cb e h
  | setProp o k v => exact cellsAll_setProp hQ o k v h
  | addErr tk e => exact cellsAll_addErrTo tk e h
  | setItems its => exact h
  | updateCell r c => exact cellsAll_modCell r c _ (hupd r c rfl) h
  | copyCell r c =>
    show CellsAll Q (match w.cell? r c with | some ce => _ | none => w)
    cases e : w.cell? r c with
    | none => exact h
    | some ce =>
      refine ⟨h.1, ?_⟩
      intro x hx
      rcases List.mem_append.mp hx with h1 | h1
      · exact h.2 x h1
      · rw [List.mem_singleton.mp h1]; exact h.cell? e
  | render t => exact cellsAll_irc hQ dw t h

theorem items_addTimeCells (dw : Measure) (t r : Nat) (colTaker : World → Taker) (n i : Nat) (w : World) :
    (addTimeCells dw t r colTaker n i w).items = w.items := by
  induction n generalizing i w with
  | zero => rfl
  | succ n ih =>
    unfold addTimeCells
    rw [ih, items_invoke, items_invoke]

theorem items_addRow (dw : Measure) (w : World) (t r : Nat) : (w.addRow dw t r).items = w.items := by
  unfold World.addRow
  rw [items_addTimeCells, items_invoke, items_invoke]
  rfl

theorem items_rowAddMany (dw : Measure) (r : Nat) (is : List Nat) (w : World) :
    (rowAddMany dw r is w).items = w.items := by
  induction is generalizing w with
  | nil => rfl
  | cons i is ih =>
    unfold rowAddMany
    rw [ih]
    exact items_rowAddCell dw w r _

theorem items_addHeaders (dw : Measure) (w : World) (t : Nat) (is : List Nat) :
    (w.addHeaders dw t is).items = w.items := by
  unfold World.addHeaders
  rw [items_addTimeCells, items_invoke]
  show (rowAddMany dw _ is _).items = _
  rw [items_rowAddMany]
  rfl

theorem items_addRowItems (dw : Measure) (w : World) (t : Nat) (is : List Nat) :
    (w.addRowItems dw t is).1.items = w.items := by
  unfold World.addRowItems
  show (World.addRow dw _ t _).items = _
  rw [items_addRow, items_rowAddMany]
  rfl

theorem items_appendNewRow (dw : Measure) (w : World) (t : Nat) :
    (w.appendNewRow dw t).1.items = w.items := by
  unfold World.appendNewRow
  show (World.addRow dw _ t _).items = _
  rw [items_addRow]
  rfl

/-- the item store changes only by `setItems` -/
theorem items_applyOp (dw : Measure) (w : World) (op : BuildOp) :
    (applyOp dw w op).items = op.storeAfter w.items := by
  cases op with
  | setItems its => rfl
  | newTable => rfl
  | newRow => rfl
  | zeroRow => rfl
  | addSeparator t => rfl
  | setProp o k v => exact E2Ecb.items_setProp w o k v
  | addErr tk e => exact E2Ecb.items_addErrTo w tk e
  | updateCell r c => rfl
  | copyCell r c =>
    show (match w.cell? r c with | some ce => _ | none => w).items = _
    cases w.cell? r c <;> rfl
  | render t => exact E2Ecb.irc_items dw w t
  | regCb o tm tg cb =>
    show ((w.registerCb o tm tg cb).getD w).items = w.items
    cases e : w.registerCb o tm tg cb with
    | none => rfl
    | some w' =>
      cases o <;> cases tg <;> simp only [World.registerCb, Option.some.injEq, reduceCtorEq] at e <;>
        subst e <;> rfl
  | rowAdd r i => exact items_rowAddCell dw w r _
  | rowAddCell r ce => exact items_rowAddCell dw w r ce
  | addHeaders t items => exact items_addHeaders dw w t items
  | addRowItems t items => exact items_addRowItems dw w t items
  | appendNewRow t => exact items_appendNewRow dw w t
  | addRow t r => exact items_addRow dw w t r

end C03h
end Tab
