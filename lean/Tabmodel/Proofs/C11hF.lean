/- C11, history level — the step law of `addRow`, `appendNewRow`, `addRowItems`, `addHeaders`. -/
import Tabmodel.Proofs.C11hE
namespace Tab
namespace World

/-! ### `AddRow` -/

theorem addRowK_good (dw : Measure) (e k : Nat) (w : World) (t r : Nat) (ht : t < w.tables.length)
    (hr : r < w.rows.length) :
    Good (addRowCore w t r) e k (.table t) (addRowK dw e (w, k) t r) := by
  have := addRowCbsK_good dw e k (addRowCore w t r) t r
    (by rw [addRowCore_tables_length]; exact ht) (addRowCore_ec w t r hr)
  unfold addRowK
  exact this

theorem astep_addRowK (dw : Measure) (e k : Nat) (w : World) (t r : Nat) (ht : t < w.tables.length)
    (hr : r < w.rows.length) (hu : unattached w r) :
    k ≤ (addRowK dw e (w, k) t r).2 ∧
    AStep e t r ((addRowK dw e (w, k) t r).2 - k) w (addRowK dw e (w, k) t r).1 := by
  have G := addRowK_good dw e k w t r ht hr
  refine ⟨G.le, ?_⟩
  refine ⟨hu, (G.st.ecT r t).mp (addRowCore_ec w t r hr), ?_, ?_, ?_, ?_⟩
  · intro r' hne t'
    rw [← G.st.ecT r' t', addRowCore_ec_ne w t r r' (Ne.symm hne)]
  · rw [G.ms, addRowCore_mass w t r ht hr hu e]
  · intro t'
    rw [G.ct (.table t')]
    by_cases htt : t' = t
    · subst htt
      simp only [if_true, cnt, addRowCore_errs w t' r ht hu, List.count_append]
      rw [← cnt_row_unattached w r e hu]
      simp only [cnt]; omega
    · have : ¬ Src.table t' = Src.table t := by intro x; cases x; exact htt rfl
      simp only [htt, this, if_false, cnt, addRowCore_errs_ne w t r t' (Ne.symm htt)]
  · intro r' hne
    rw [G.ct (.row r')]
    have : ¬ Src.row r' = Src.table t := by intro x; cases x
    simp only [this, if_false, Nat.add_zero, cnt, ownCount, addRowCore_ec_ne w t r r' (Ne.symm hne)]

theorem addRow_rows_self (dw : Measure) (w : World) (t r : Nat) (ht : t < w.tables.length) :
    ((addRow dw w t r).table t).rows = (w.table t).rows ++ [r] := by
  rw [addRow_eq, (addRowCbs_stable dw _ t r).trows, addRowCore_rows w t r ht]

theorem addRow_rows_ne (dw : Measure) (w : World) (t r t' : Nat) (h : t ≠ t') :
    ((addRow dw w t r).table t').rows = (w.table t').rows := by
  rw [addRow_eq, (addRowCbs_stable dw _ t r).trows, addRowCore_rows_ne w t r t' h]

theorem addRow_tables_length (dw : Measure) (w : World) (t r : Nat) :
    (addRow dw w t r).tables.length = w.tables.length := by
  rw [addRow_eq, (addRowCbs_stable dw _ t r).tlen, addRowCore_tables_length]

theorem addRow_ec (dw : Measure) (w : World) (t r : Nat) (hr : r < w.rows.length) :
    ((addRow dw w t r).row r).ec = .table t := by
  rw [addRow_eq]
  exact ((addRowCbs_stable dw _ t r).ecT r t).mp (addRowCore_ec w t r hr)

theorem cnt_newRow (w : World) (rw : Row) (h : rw.ec = .none) (e : Nat) (g : Src) :
    cnt (w.newRow rw).1 e g = cnt w e g :=
  cnt_congr (w := w) (w' := (w.newRow rw).1) (fun _ => rfl) (ec_newRow w rw h) e g

theorem he_addRow (dw : Measure) {hs : List Nat} {w : World} (h : HE hs w) (t r : Nat)
    (ht : t < w.tables.length) (hr : r < w.rows.length) (hu : unattached w r) :
    HE hs (addRow dw w t r) where
  att t' ht' := by
    rw [addRow_tables_length] at ht'
    exact attachedAll_addRow dw w t r t' ht hr hu (h.att t' ht')
  ect r' t' hec := by
    rw [addRow_tables_length]
    by_cases hrr : r' = r
    · subst hrr
      rw [addRow_ec dw w t r' hr] at hec
      cases hec
      exact ⟨ht, Or.inl (by rw [addRow_rows_self dw w t r' ht]; simp)⟩
    · have hec' : (w.row r').ec = .table t' := by
        rw [addRow_eq] at hec
        have := ((addRowCbs_stable dw _ t r).ecT r' t').mpr hec
        rwa [addRowCore_ec_ne w t r r' (Ne.symm hrr)] at this
      obtain ⟨h1, h2⟩ := h.ect r' t' hec'
      refine ⟨h1, ?_⟩
      rcases h2 with h2 | h2
      · left
        by_cases htt : t = t'
        · subst htt; rw [addRow_rows_self dw w t r ht]; exact List.mem_append_left _ h2
        · rw [addRow_rows_ne dw w t r t' htt]; exact h2
      · exact Or.inr h2

/-- an attach step seen from a world that differs only by a fresh, empty row -/
theorem AStep.of_eq {e t r n : Nat} {w W1 w' : World} (h : AStep e t r n W1 w')
    (hc : ∀ g, cnt W1 e g = cnt w e g) (hm : mass W1 e = mass w e)
    (hec : ∀ r', (W1.row r').ec = (w.row r').ec) : AStep e t r n w w' where
  un := by have := h.un; unfold unattached at this ⊢; rwa [hec] at this
  ec := h.ec
  own r' hne t' := by rw [← hec]; exact h.own r' hne t'
  ms := by rw [← hm]; exact h.ms
  ctT t' := by rw [← hc, ← hc]; exact h.ctT t'
  ctR r' hne := by rw [← hc]; exact h.ctR r' hne

/-! ### `AppendNewRow` -/

theorem astep_appendNewRow (dw : Measure) (e : Nat) (w : World) (t : Nat) (ht : t < w.tables.length) :
    AStep e t w.rows.length (addRowK dw e ((w.newRow {}).1, 0) t w.rows.length).2 w
      (addRowK dw e ((w.newRow {}).1, 0) t w.rows.length).1 := by
  have hu : unattached (w.newRow {}).1 w.rows.length := by
    left; rw [row_newRow_self]
  have := (astep_addRowK dw e 0 (w.newRow {}).1 t w.rows.length ht (by simp [newRow]) hu).2
  simp only [Nat.sub_zero] at this
  refine this.of_eq ?_ (mass_newRow w {} e rfl) (ec_newRow w {} rfl)
  intro g
  exact cnt_newRow w {} rfl e g

/-! ### `AddRowItems` -/

theorem astep_addRowItems (dw : Measure) (e : Nat) (w : World) (t : Nat) (items : List Nat)
    (ht : t < w.tables.length) :
    AStep e t w.rows.length
      (addRowK dw e (rowAddManyK dw e w.rows.length items ((w.newRow {}).1, 0)) t w.rows.length).2 w
      (addRowK dw e (rowAddManyK dw e w.rows.length items ((w.newRow {}).1, 0)) t w.rows.length).1 := by
  have hres : resolve (w.newRow {}).1 (.rowLazy w.rows.length) = some (.row w.rows.length) := by
    have : w.rows.length < (w.newRow {}).1.rows.length := by simp [newRow]
    simp only [resolve, this, if_true, row_newRow_self]
  have G1 := rowAddManyK_good dw w.rows.length items _
    (Good.start (w.newRow {}).1 e 0 (.row w.rows.length)) hres
  have hu1 : unattached (w.newRow {}).1 w.rows.length := by left; rw [row_newRow_self]
  have hu2 : unattached (rowAddManyK dw e w.rows.length items ((w.newRow {}).1, 0)).1 w.rows.length := by
    rw [unattached_iff] at hu1 ⊢
    intro t' h'
    exact hu1 t' ((G1.st.ecT _ t').mpr h')
  have A2 : (rowAddManyK dw e w.rows.length items ((w.newRow {}).1, 0)).2 ≤
        (addRowK dw e (rowAddManyK dw e w.rows.length items ((w.newRow {}).1, 0)) t w.rows.length).2 ∧
      AStep e t w.rows.length
        ((addRowK dw e (rowAddManyK dw e w.rows.length items ((w.newRow {}).1, 0)) t w.rows.length).2 -
          (rowAddManyK dw e w.rows.length items ((w.newRow {}).1, 0)).2)
        (rowAddManyK dw e w.rows.length items ((w.newRow {}).1, 0)).1
        (addRowK dw e (rowAddManyK dw e w.rows.length items ((w.newRow {}).1, 0)) t w.rows.length).1 :=
    astep_addRowK dw e (rowAddManyK dw e w.rows.length items ((w.newRow {}).1, 0)).2
      (rowAddManyK dw e w.rows.length items ((w.newRow {}).1, 0)).1 t w.rows.length
      (by rw [G1.st.tlen]; exact ht) (by rw [G1.st.rlen]; simp [newRow]) hu2
  obtain ⟨hle, A2⟩ := A2
  have hc1 : ∀ g, cnt (w.newRow {}).1 e g = cnt w e g :=
    fun g => cnt_newRow w {} rfl e g
  have h0 : cnt w e (.row w.rows.length) = 0 := cnt_row_oob w _ e (Nat.le_refl _)
  refine ⟨unattached_oob w _ (Nat.le_refl _), A2.ec, ?_, ?_, ?_, ?_⟩
  · intro r' hne t'
    rw [← A2.own r' hne t', ← G1.st.ecT r' t', ec_newRow w {} rfl]
  · rw [A2.ms, G1.ms, mass_newRow w {} e rfl]; simp only [Nat.sub_zero]; omega
  · intro t'
    rw [A2.ctT t', G1.ct (.table t'), G1.ct (.row w.rows.length), hc1, hc1, h0]
    have : ¬ Src.table t' = Src.row w.rows.length := by intro x; cases x
    simp only [this, if_false, if_true, Nat.sub_zero, Nat.add_zero, Nat.zero_add]
    split <;> omega
  · intro r' hne
    rw [A2.ctR r' hne, G1.ct (.row r'), hc1]
    have : ¬ Src.row r' = Src.row w.rows.length := by intro x; cases x; exact hne rfl
    simp only [this, if_false, Nat.add_zero]

theorem he_rowAddMany (dw : Measure) {hs : List Nat} {w : World} (h : HE hs w) (r : Nat)
    (is : List Nat) : HE hs (rowAddMany dw r is w) := h.of_stable (rowAddMany_stable dw r is w)

end World
end Tab
