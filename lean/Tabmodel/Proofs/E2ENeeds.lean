/-
  "Wrapped at least once" as a property of the history: a render-time cell callback registered on
  a table stays registered through every later operation of a history (`has_runFrom`), so a history
  that contains a `Wrap` step (`wrapOps`) on an existing table establishes `Needs`
  (`needs_of_wrapped`).

  `tcbs w` is the projection "for each table, its render-time cell callbacks"; every operation keeps
  it, except `newTable` (appends an empty entry) and `RegisterPropertyCallback` on a table's cells
  at render time (appends to one entry).
-/
import Tabmodel.Proofs.E2EView
namespace Tab
namespace World

/-- per table, the render-time cell callbacks -/
def tcbs (w : World) : List (List Cb) := w.tables.map (·.cellCbs.render)

/-- `cb` is registered as a render-time cell callback of table `t` -/
def Has (w : World) (t : Nat) (cb : Cb) : Prop := cb ∈ (w.table t).cellCbs.render

theorem has_iff (w : World) (t : Nat) (cb : Cb) : Has w t cb ↔ cb ∈ w.tcbs.getD t [] := by
  unfold Has tcbs table
  rw [List.getD_eq_getElem?_getD, List.getD_eq_getElem?_getD, List.getElem?_map]
  cases w.tables[t]? <;> rfl

theorem has_of_tcbs_eq {w w' : World} (h : w'.tcbs = w.tcbs) (t : Nat) (cb : Cb) (hh : Has w t cb) :
    Has w' t cb := by
  rw [has_iff] at hh ⊢; rw [h]; exact hh

/-! ### what keeps `tcbs` -/

theorem tcbs_modTable_id (w : World) (t : Nat) (f : Table → Table)
    (h : ∀ tb, (f tb).cellCbs.render = tb.cellCbs.render) : (w.modTable t f).tcbs = w.tcbs := by
  unfold modTable tcbs
  exact map_modify_inv (fun tb : Table => tb.cellCbs.render) f h _ _

theorem tcbs_modRow (w : World) (r : Nat) (f : Row → Row) : (w.modRow r f).tcbs = w.tcbs := rfl
theorem tcbs_modCell (w : World) (r c : Nat) (f : Cell → Cell) : (w.modCell r c f).tcbs = w.tcbs := rfl
theorem tcbs_modColumn (w : World) (t n : Nat) (f : Column → Column) : (w.modColumn t n f).tcbs = w.tcbs :=
  tcbs_modTable_id _ _ _ (fun _ => rfl)
theorem tcbs_newRow (w : World) (rw : Row) : (w.newRow rw).1.tcbs = w.tcbs := rfl

theorem tcbs_resize (w : World) (t n : Nat) :
    (w.modTable t (fun tb => resizeColumnsAtLeast tb n)).tcbs = w.tcbs := by
  apply tcbs_modTable_id
  intro tb
  unfold resizeColumnsAtLeast
  split <;> rfl

theorem tcbs_addErrTo (w : World) (tk : Taker) (e : Nat) : (w.addErrTo tk e).tcbs = w.tcbs := by
  unfold addErrTo
  split
  · rfl
  · exact tcbs_modTable_id _ _ _ (fun _ => rfl)
  · rfl
  · split
    · rfl
    · rfl
    · exact tcbs_modTable_id _ _ _ (fun _ => rfl)

theorem tcbs_setProp (w : World) (o : Target) (k : Key) (v : Option Val) : (w.setProp o k v).tcbs = w.tcbs := by
  unfold setProp
  split
  · exact tcbs_modTable_id _ _ _ (fun _ => rfl)
  · exact tcbs_modColumn _ _ _ _
  · rfl
  · rfl
  · rfl

theorem tcbs_invokeOne (dw : Measure) (w : World) (cb : Cb) (tgt : Target) (tk : Taker) :
    (invokeOne dw w cb tgt tk).tcbs = w.tcbs := by
  unfold invokeOne
  split
  · rfl
  · rw [tcbs_setProp]; rfl
  · rw [tcbs_addErrTo]; rfl
  · split
    · split
      · simp only [tcbs_setProp]
      · rfl
    · exact tcbs_addErrTo _ _ _
  · split
    · split
      · simp only [tcbs_setProp]
      · rfl
    · exact tcbs_addErrTo _ _ _

theorem tcbs_invoke (dw : Measure) (w : World) (cbs : List Cb) (tgt : Target) (tk : Taker) :
    (invoke dw w cbs tgt tk).tcbs = w.tcbs := by
  unfold invoke
  induction cbs generalizing w with
  | nil => rfl
  | cons cb cbs ih => simp only [List.foldl_cons]; rw [ih, tcbs_invokeOne]

theorem tcbs_addTimeCells (dw : Measure) (t r : Nat) (colTaker : World → Taker) (n i : Nat) (w : World) :
    (addTimeCells dw t r colTaker n i w).tcbs = w.tcbs := by
  induction n generalizing i w with
  | zero => rfl
  | succ n ih => simp only [addTimeCells]; rw [ih, tcbs_invoke, tcbs_invoke]

theorem tcbs_renderCells (dw : Measure) (t r : Nat) (n i : Nat) (w : World) :
    (renderCells dw t r n i w).tcbs = w.tcbs := by
  induction n generalizing i w with
  | zero => rfl
  | succ n ih => simp only [renderCells]; rw [ih]; simp only [tcbs_invoke]

theorem tcbs_renderRow (dw : Measure) (t : Nat) (w : World) (r : Nat) : (renderRow dw t w r).tcbs = w.tcbs := by
  unfold renderRow
  simp only [tcbs_invoke, tcbs_renderCells]

theorem tcbs_renderColumns (dw : Measure) (t : Nat) (tm : Time) (n i : Nat) (w : World) :
    (renderColumns dw t tm n i w).tcbs = w.tcbs := by
  induction n generalizing i w with
  | zero => rfl
  | succ n ih => simp only [renderColumns]; rw [ih, tcbs_invoke]

theorem tcbs_foldl_renderRow (dw : Measure) (t : Nat) (rs : List Nat) (w : World) :
    (rs.foldl (renderRow dw t) w).tcbs = w.tcbs := by
  induction rs generalizing w with
  | nil => rfl
  | cons r rs ih => simp only [List.foldl_cons]; rw [ih, tcbs_renderRow]

theorem tcbs_invokeRenderCallbacks (dw : Measure) (w : World) (t : Nat) :
    (invokeRenderCallbacks dw w t).tcbs = w.tcbs := by
  unfold invokeRenderCallbacks
  simp only [tcbs_invoke, tcbs_renderColumns, tcbs_foldl_renderRow]
  split
  · simp only [tcbs_renderRow, tcbs_renderColumns, tcbs_invoke]
  · simp only [tcbs_renderColumns, tcbs_invoke]

theorem tcbs_rowAddCell (dw : Measure) (w : World) (r : Nat) (ce : Cell) : (rowAddCell dw w r ce).tcbs = w.tcbs := by
  unfold rowAddCell
  split
  · exact tcbs_addErrTo _ _ _
  · simp only []
    rw [tcbs_invoke]
    split
    · rw [tcbs_resize]; rfl
    · rfl

theorem tcbs_rowAdd (dw : Measure) (w : World) (r i : Nat) : (rowAdd dw w r i).tcbs = w.tcbs :=
  tcbs_rowAddCell dw w r _

theorem tcbs_rowAddMany (dw : Measure) (r : Nat) (is : List Nat) (w : World) :
    (rowAddMany dw r is w).tcbs = w.tcbs := by
  induction is generalizing w with
  | nil => rfl
  | cons i is ih => simp only [rowAddMany]; rw [ih, tcbs_rowAdd]

theorem tcbs_addRow (dw : Measure) (w : World) (t r : Nat) : (addRow dw w t r).tcbs = w.tcbs := by
  unfold addRow
  simp only [tcbs_addTimeCells, tcbs_invoke]
  refine (tcbs_modRow _ _ _).trans ?_
  refine Eq.trans (tcbs_modTable_id _ _ _ ?_) ?_
  · intro _; rfl
  refine (tcbs_resize _ _ _).trans ?_
  refine (tcbs_modRow _ _ _).trans ?_
  exact tcbs_modTable_id _ _ _ (fun _ => rfl)

theorem tcbs_addSeparator (w : World) (t : Nat) : (addSeparator w t).tcbs = w.tcbs := by
  unfold addSeparator
  refine (tcbs_modRow _ _ _).trans ?_
  refine Eq.trans (tcbs_modTable_id _ _ _ ?_) ?_
  · intro _; rfl
  rfl

theorem tcbs_addHeaders (dw : Measure) (w : World) (t : Nat) (items : List Nat) :
    (addHeaders dw w t items).tcbs = w.tcbs := by
  unfold addHeaders
  simp only [tcbs_addTimeCells, tcbs_invoke]
  refine Eq.trans (tcbs_modTable_id _ _ _ ?_) ?_
  · intro _; rfl
  refine (tcbs_rowAddMany _ _ _ _).trans ?_
  refine (tcbs_newRow _ _).trans ?_
  exact tcbs_resize _ _ _

theorem tcbs_addRowItems (dw : Measure) (w : World) (t : Nat) (items : List Nat) :
    (addRowItems dw w t items).1.tcbs = w.tcbs := by
  unfold addRowItems
  simp only []
  rw [tcbs_addRow, tcbs_rowAddMany, tcbs_newRow]

theorem tcbs_appendNewRow (dw : Measure) (w : World) (t : Nat) : (appendNewRow dw w t).1.tcbs = w.tcbs := by
  unfold appendNewRow
  simp only []
  rw [tcbs_addRow, tcbs_newRow]

/-! ### every operation keeps a registered callback registered -/

theorem has_newTable (w : World) (t : Nat) (cb : Cb) (h : Has w t cb) : Has w.newTable.1 t cb := by
  rw [has_iff] at h ⊢
  have e : w.newTable.1.tcbs = w.tcbs ++ [[]] := by simp [newTable, tcbs]
  rw [e, List.getD_eq_getElem?_getD] at *
  by_cases ht : t < w.tcbs.length
  · rw [List.getElem?_append_left ht]; exact h
  · rw [List.getElem?_eq_none (by omega)] at h
    simp at h

theorem has_modTable_push (w : World) (t' : Nat) (cb' : Cb) (tm : Time) (t : Nat) (cb : Cb) (h : Has w t cb) :
    Has (w.modTable t' (fun tb => { tb with cellCbs := tb.cellCbs.push tm cb' })) t cb := by
  unfold Has at h ⊢
  rw [table_modTable']
  split
  · rename_i hc
    obtain ⟨rfl, _⟩ := hc
    cases tm <;> simp only [CbSet.push] <;> first | exact h | exact List.mem_append_left _ h
  · exact h

theorem has_modTable_id (w : World) (t' : Nat) (f : Table → Table)
    (hf : ∀ tb, (f tb).cellCbs.render = tb.cellCbs.render) (t : Nat) (cb : Cb) (h : Has w t cb) :
    Has (w.modTable t' f) t cb :=
  has_of_tcbs_eq (tcbs_modTable_id w t' f hf) t cb h

theorem has_registerCb (w : World) (o : Target) (tm : Time) (tg : CbTarget) (cb' : Cb) (t : Nat) (cb : Cb)
    (h : Has w t cb) : Has ((w.registerCb o tm tg cb').getD w) t cb := by
  unfold registerCb
  split <;> simp only [Option.getD_some, Option.getD_none] <;> first
    | exact h
    | exact has_modTable_push w _ cb' tm t cb h
    | (refine has_modTable_id w _ _ ?_ t cb h; intro _; rfl)
    | exact has_of_tcbs_eq (tcbs_modColumn _ _ _ _) t cb h

theorem has_applyOp (dw : Measure) (w : World) (op : BuildOp) (t : Nat) (cb : Cb) (h : Has w t cb) :
    Has (applyOp dw w op) t cb := by
  cases op with
  | newTable => exact has_newTable w t cb h
  | addHeaders t' items => exact has_of_tcbs_eq (tcbs_addHeaders dw w t' items) t cb h
  | addRowItems t' items => exact has_of_tcbs_eq (tcbs_addRowItems dw w t' items) t cb h
  | newRow => exact h
  | zeroRow => exact h
  | appendNewRow t' => exact has_of_tcbs_eq (tcbs_appendNewRow dw w t') t cb h
  | rowAdd r i => exact has_of_tcbs_eq (tcbs_rowAdd dw w r i) t cb h
  | rowAddCell r ce => exact has_of_tcbs_eq (tcbs_rowAddCell dw w r ce) t cb h
  | addRow t' r => exact has_of_tcbs_eq (tcbs_addRow dw w t' r) t cb h
  | addSeparator t' => exact has_of_tcbs_eq (tcbs_addSeparator w t') t cb h
  | regCb o tm tg cb' => exact has_registerCb w o tm tg cb' t cb h
  | setProp o k v => exact has_of_tcbs_eq (tcbs_setProp w o k v) t cb h
  | addErr tk e => exact has_of_tcbs_eq (tcbs_addErrTo w tk e) t cb h
  | setItems its => exact h
  | updateCell r c => exact h
  | copyCell r c =>
    show Has (match w.cell? r c with | some ce => { w with copies := w.copies ++ [ce] } | none => w) t cb
    split <;> exact h
  | render t' => exact has_of_tcbs_eq (tcbs_invokeRenderCallbacks dw w t') t cb h

theorem has_runFrom (dw : Measure) (ops : List BuildOp) (w : World) (t : Nat) (cb : Cb) (h : Has w t cb) :
    Has (runFrom dw w ops) t cb := by
  unfold runFrom
  induction ops generalizing w with
  | nil => exact h
  | cons op ops ih => exact ih _ (has_applyOp dw w op t cb h)

/-- the callback a `Wrap` of kind `k` registers -/
theorem has_wrapEffect_self (w : World) (k : WKind) (t : Nat) (ht : t < w.tables.length) (cb : Cb)
    (hk : wrapCb k = some cb) : Has (w.wrapEffect k t) t cb :=
  render_mem_wrapEffect_self w k t ht cb hk

/-- a history with a `Wrap` step on an existing table establishes `Needs` for the rest of time -/
theorem needs_of_wrapped (dw : Measure) (pre post : List BuildOp) (wr : Wrapper)
    (ht : wr.core < (run dw pre).tables.length) :
    Needs (run dw (pre ++ wrapOps wr.kind wr.core ++ post)) wr := by
  rw [run_append, run_wrapOps]
  constructor
  · intro hk
    exact has_runFrom dw post _ wr.core .dimSetter (has_wrapEffect_self _ _ _ ht _ (by rw [hk]; rfl))
  · intro hk
    exact has_runFrom dw post _ wr.core .widthSetter (has_wrapEffect_self _ _ _ ht _ (by rw [hk]; rfl))

end World
end Tab
