/-
  C03m — definitions: hypotheses on the external display-width measure `dw` that are weaker than
  blanket additivity, and the (decidable) side conditions on cell texts and glyphs under which they
  give `AdditiveOn dw segs` for every line the text renderer writes.
-/
import Tabmodel.Spec.Text
import Tabmodel.Proofs.Clusters
namespace Tab

/-! ### junctions -/

/-- A junction relation.  `ok a b` reads: "the boundary between `a` (left) and `b` (right) is one
    across which the measure is assumed additive".  It may look only at the END of `a` and the START
    of `b`: extending either side away from the boundary keeps it (`mono`). -/
structure Junction where
  ok : Bytes → Bytes → Prop
  mono : ∀ x a b y, ok a b → ok (x ++ a) (b ++ y)

/-- the boundaries the hypothesis on `dw` speaks about: trivial ones and those the junction accepts -/
def BoundaryOK (J : Junction) (a b : Bytes) : Prop := a = [] ∨ b = [] ∨ J.ok a b

/-- THE hypothesis on the measure: additive across every accepted boundary (weaker than additivity
    for all `a b`, which is the case `Junction.all`) -/
def AdditiveAcross (dw : Measure) (J : Junction) : Prop :=
  ∀ a b, BoundaryOK J a b → dw (a ++ b) = dw a + dw b

/-- every boundary accepted: `AdditiveAcross dw Junction.all` is plain additivity -/
def Junction.all : Junction := { ok := fun _ _ => True, mono := fun _ _ _ _ _ => trivial }

/-- consecutive non-empty atoms are joined by accepted boundaries (`p` = the previous non-empty
    atom, `[]` at the start of the line) -/
def chainFrom (J : Junction) : Bytes → List Bytes → Prop
  | _, [] => True
  | p, a :: rest => if a = [] then chainFrom J p rest else (p = [] ∨ J.ok p a) ∧ chainFrom J a rest

/-- a cell line may stand between two spaces (the padding or the joining space) -/
def TextSafe (J : Junction) (t : Bytes) : Prop := t = [] ∨ (J.ok [SP] t ∧ J.ok t [SP])

/-- the glyph-side boundaries of a boxed render: space|space, content divider|space both ways, and
    inside each rule line left|horiz, horiz|horiz, horiz|cross, cross|horiz, horiz|right -/
structure GlyphJunctions (J : Junction) (d : Decoration) : Prop where
  sp_sp : J.ok [SP] [SP]
  div_sp : ∀ g ∈ [d.vHeader, d.vBodyBorder, d.vBodyInner], J.ok g [SP] ∧ J.ok [SP] g
  rule : ∀ q ∈ ruleGlyphs d, J.ok q.1 q.2.1 ∧ J.ok q.2.1 q.2.1 ∧ J.ok q.2.1 q.2.2.1 ∧
    J.ok q.2.2.1 q.2.1 ∧ J.ok q.2.1 q.2.2.2

/-! ### a concrete, decidable junction: by the code points at the boundary -/

/-- the code point of a byte string that is EXACTLY one well-formed UTF-8 sequence (the acceptance
    table of Go's `utf8.DecodeRune`, cf. `runeLen`): no overlong forms, no surrogates, ≤ U+10FFFF -/
def cpOfExact : Bytes → Option Nat
  | [b0] => if b0 < 0x80 then some b0.toNat else none
  | [b0, b1] =>
    if 0xC2 ≤ b0 && b0 ≤ 0xDF && isCont b1 then some ((b0.toNat - 0xC0) * 64 + (b1.toNat - 0x80))
    else none
  | [b0, b1, b2] =>
    let lo : UInt8 := if b0 = 0xE0 then 0xA0 else 0x80
    let hi : UInt8 := if b0 = 0xED then 0x9F else 0xBF
    if 0xE0 ≤ b0 && b0 ≤ 0xEF && lo ≤ b1 && b1 ≤ hi && isCont b2 then
      some ((b0.toNat - 0xE0) * 4096 + (b1.toNat - 0x80) * 64 + (b2.toNat - 0x80))
    else none
  | [b0, b1, b2, b3] =>
    let lo : UInt8 := if b0 = 0xF0 then 0x90 else 0x80
    let hi : UInt8 := if b0 = 0xF4 then 0x8F else 0xBF
    if 0xF0 ≤ b0 && b0 ≤ 0xF4 && lo ≤ b1 && b1 ≤ hi && isCont b2 && isCont b3 then
      some ((b0.toNat - 0xF0) * 262144 + (b1.toNat - 0x80) * 4096 + (b2.toNat - 0x80) * 64
        + (b3.toNat - 0x80))
    else none
  | _ => none

/-- `s` starts with a complete well-formed code point satisfying `p` -/
def startsCp (p : Nat → Bool) (s : Bytes) : Bool :=
  [1, 2, 3, 4].any (fun k => decide (k ≤ s.length) &&
    (match cpOfExact (s.take k) with | some c => p c | none => false))

/-- `s` ends with a complete well-formed code point satisfying `p` -/
def endsCp (p : Nat → Bool) (s : Bytes) : Bool :=
  [1, 2, 3, 4].any (fun k => decide (k ≤ s.length) &&
    (match cpOfExact (s.drop (s.length - k)) with | some c => p c | none => false))

theorem startsCp_mono (p : Nat → Bool) (b y : Bytes) (h : startsCp p b = true) :
    startsCp p (b ++ y) = true := by
  unfold startsCp at h ⊢
  rw [List.any_eq_true] at h ⊢
  obtain ⟨k, hk, hb⟩ := h
  refine ⟨k, hk, ?_⟩
  simp only [Bool.and_eq_true, decide_eq_true_eq] at hb ⊢
  refine ⟨by rw [List.length_append]; omega, ?_⟩
  rw [List.take_append_of_le_length hb.1]
  exact hb.2

theorem endsCp_mono (p : Nat → Bool) (x a : Bytes) (h : endsCp p a = true) :
    endsCp p (x ++ a) = true := by
  unfold endsCp at h ⊢
  rw [List.any_eq_true] at h ⊢
  obtain ⟨k, hk, hb⟩ := h
  refine ⟨k, hk, ?_⟩
  simp only [Bool.and_eq_true, decide_eq_true_eq] at hb ⊢
  refine ⟨by rw [List.length_append]; omega, ?_⟩
  have e : (x ++ a).length - k = x.length + (a.length - k) := by rw [List.length_append]; omega
  have e2 : (x ++ a).drop (x.length + (a.length - k)) = a.drop (a.length - k) := by
    rw [List.drop_append, List.drop_eq_nil_of_le (by omega)]
    simp
  rw [e, e2]
  exact hb.2

/-- accepted: the left side ends with a whole code point in `endOK`, the right side starts with a
    whole code point in `startOK` -/
def Junction.cps (endOK startOK : Nat → Bool) : Junction :=
  { ok := fun a b => endsCp endOK a = true ∧ startsCp startOK b = true
    mono := fun x a b y h => ⟨endsCp_mono endOK x a h.1, startsCp_mono startOK b y h.2⟩ }

def inRanges (rs : List (Nat × Nat)) (c : Nat) : Bool := rs.any (fun r => r.1 ≤ c && c ≤ r.2)

/-- the D20 shape: `joinsPrev` = code-point ranges that attach to the PRECEDING character (extend,
    spacing mark, ZWJ, emoji modifier, …), `joinsNext` = ranges that attach to the FOLLOWING one
    (prepend, …).  A boundary is accepted when the code point before it is whole and not in
    `joinsNext` and the code point after it is whole and not in `joinsPrev`. -/
def Junction.clusters (joinsPrev joinsNext : List (Nat × Nat)) : Junction :=
  Junction.cps (fun c => !inRanges joinsNext c) (fun c => !inRanges joinsPrev c)

instance (e s : Nat → Bool) (a b : Bytes) : Decidable ((Junction.cps e s).ok a b) := by
  unfold Junction.cps; exact inferInstance

instance (e s : Nat → Bool) (t : Bytes) : Decidable (TextSafe (Junction.cps e s) t) := by
  unfold TextSafe; exact inferInstance

instance (jp jn : List (Nat × Nat)) (a b : Bytes) : Decidable ((Junction.clusters jp jn).ok a b) := by
  unfold Junction.clusters; exact inferInstance

instance (jp jn : List (Nat × Nat)) (t : Bytes) : Decidable (TextSafe (Junction.clusters jp jn) t) := by
  unfold Junction.clusters; exact inferInstance

/-! ### cluster-shaped measures (C18.4) -/

/-- `dw` has go-runewidth's shape: some cluster splitter `cr` (≥ 1 rune per cluster) and per-cluster
    width `cw` (≤ 2 cells) make `dw l` the sum of the cluster widths of `l` -/
def ClusterShaped (dw : Measure) : Prop :=
  ∃ cr cw : Bytes → Nat, (∀ s, 1 ≤ cr s) ∧ (∀ s, cw s ≤ 2) ∧
    ∀ l, dw l = clusterWidth cr cw l.length l

end Tab
