/- C03 / C04: last helper layer (decoration predicates, row counts, per-chunk layout). -/
import Tabmodel.Proofs.TextDims
namespace Tab
open Emit

theorem measuredCell_ok (dw : Measure) (text : Bytes) :
    CellOK dw (measuredCell dw text) ∧ CellFits (measuredCell dw text) ∧ CellMeasured dw (measuredCell dw text) := by
  refine ⟨⟨by simp [measuredCell], (lines text).map (fun l => ((dw l : Nat) : Int)), 0, by simp [measuredCell], ?_, ?_, Or.inl rfl⟩, ?_, ?_⟩
  · simp [measuredCell, zipWith_map_mk]
  · intro w hw; obtain ⟨l, _, rfl⟩ := List.mem_map.mp hw; omega
  · intro x hx
    simp only [measuredCell] at hx ⊢
    obtain ⟨l, hl, rfl⟩ := List.mem_map.mp hx
    rw [longestLine_eq]
    exact Int.ofNat_le.mpr (le_maxNat ((lines text).map dw) (dw l) (List.mem_map.mpr ⟨l, hl, rfl⟩))
  · intro x hx
    simp only [measuredCell] at hx
    obtain ⟨l, _, rfl⟩ := List.mem_map.mp hx
    rfl

/-! ### decorations -/

theorem GlyphOK.divs_header {dw : Measure} {d : Decoration} (h : GlyphOK dw d) :
    DivsOK d.vHeader d.vHeader d.vHeader :=
  Or.inl ⟨h.ne _ (by simp), h.ne _ (by simp), h.ne _ (by simp)⟩

theorem GlyphOK.divs_body {dw : Measure} {d : Decoration} (h : GlyphOK dw d) :
    DivsOK d.vBodyBorder d.vBodyInner d.vBodyBorder :=
  Or.inl ⟨h.ne _ (by simp), h.ne _ (by simp), h.ne _ (by simp)⟩

theorem DecoOK.divs_header {dw : Measure} {d : Decoration} (h : DecoOK dw d) :
    DivsOK d.vHeader d.vHeader d.vHeader := by
  rcases h with h | h
  · exact h.divs_header
  · exact Or.inr ⟨h.vh, h.vh, h.vh⟩

theorem DecoOK.divs_body {dw : Measure} {d : Decoration} (h : DecoOK dw d) :
    DivsOK d.vBodyBorder d.vBodyInner d.vBodyBorder := by
  rcases h with h | h
  · exact h.divs_body
  · exact Or.inr ⟨h.vb, h.vi, h.vb⟩

theorem GlyphOK.rule_one {dw : Measure} {d : Decoration} (h : GlyphOK dw d) (q : Bytes × Bytes × Bytes × Bytes)
    (hq : q ∈ ruleGlyphs d) : dw q.1 = 1 ∧ dw q.2.1 = 1 ∧ dw q.2.2.1 = 1 ∧ dw q.2.2.2 = 1 := by
  simp only [ruleGlyphs, List.mem_cons, List.not_mem_nil, or_false] at hq
  rcases hq with rfl | rfl | rfl | rfl | rfl <;>
    exact ⟨h.one _ (by simp), h.one _ (by simp), h.one _ (by simp), h.one _ (by simp)⟩

/-! ### more on maxima, rows, slots -/

theorem maxNat_cons (x : Nat) (xs : List Nat) : maxNat (x :: xs) = max x (maxNat xs) := by
  have := maxNat_append [x] xs
  simpa [maxNat] using this

theorem maxNat_flatMap {α : Type} (xs : List α) (f : α → List Nat) :
    maxNat (xs.flatMap f) = maxNat (xs.map (fun x => maxNat (f x))) := by
  induction xs with
  | nil => rfl
  | cons x t ih => rw [List.flatMap_cons, maxNat_append, List.map_cons, maxNat_cons, ih]

theorem rowLineCount_eq (cells : List RCell) (n : Nat) :
    rowLineCount cells n = max 1 (maxNat ((cells.take n).map (fun c => c.lws.length))) := by
  unfold rowLineCount maxNat
  generalize (cells.take n).map (fun c => c.lws.length) = xs
  have : ∀ a b : Nat, xs.foldl max (max a b) = max a (xs.foldl max b) := by
    induction xs with
    | nil => intro a b; rfl
    | cons x t ih =>
      intro a b
      simp only [List.foldl_cons]
      rw [show max (max a b) x = max a (max b x) by omega, ih]
  have h := this 1 0
  simpa using h

theorem rowLineCount_ge (cells : List RCell) (n i : Nat) (c : RCell) (hc : cells[i]? = some c) (hi : i < n) :
    c.lws.length ≤ rowLineCount cells n := by
  unfold rowLineCount
  apply foldl_max_ge_mem
  apply List.mem_map.mpr
  refine ⟨c, ?_, rfl⟩
  apply List.mem_of_getElem? (i := i)
  rw [List.getElem?_take]; simp [hi, hc]

theorem rowLineCount_pos (cells : List RCell) (n : Nat) : 1 ≤ rowLineCount cells n :=
  foldl_max_ge_init _ 1

theorem rowChunks_length (L I R : Bytes) (cw al : List Nat) (cells : List RCell) (n : Nat) :
    (rowChunks L I R cw al cells n).length = rowLineCount cells n := by simp [rowChunks]

theorem rowChunks_getElem? (L I R : Bytes) (cw al : List Nat) (cells : List RCell) (n k : Nat)
    (hk : k < rowLineCount cells n) :
    (rowChunks L I R cw al cells n)[k]? = some (contentLine L I R (rowSlots cw al cells k)) := by
  unfold rowChunks; exact range_map_getElem? _ _ _ hk

theorem spaces_append (a b : Nat) : spaces a ++ spaces b = spaces (a + b) := by
  simp [spaces, List.replicate_append_replicate]

theorem slotB_blank (cw al : Nat) : slotB blankWS cw al = spaces cw := by
  unfold slotB
  have := padSplit_sum al (slotPad blankWS cw)
  have hp : slotPad blankWS cw = cw := by simp [slotPad, blankWS]
  simp only [blankWS, List.append_nil] 
  rw [spaces_append]
  simp only [blankWS] at this hp
  rw [this, hp]

theorem slot_mem_boxedTail (I R : Bytes) (slots : List SlotD) (lp rp : Nat) (ws : WidthString)
    (h : Seg.slot lp ws rp ∈ boxedTail I R slots) : ∃ s ∈ slots, s.ws = ws := by
  induction slots with
  | nil => simp [boxedTail] at h
  | cons s t ih =>
    cases t with
    | nil =>
      simp [boxedTail, SlotD.seg] at h
      exact ⟨s, by simp, h.2.1.symm⟩
    | cons s' t' =>
      simp only [boxedTail, List.mem_cons, SlotD.seg] at h ih
      rcases h with h | h | h | h | h
      · simp at h; exact ⟨s, by simp, h.2.1.symm⟩
      · cases h
      · cases h
      · cases h
      · obtain ⟨x, hx, hxe⟩ := ih (by simpa [SlotD.seg] using h)
        exact ⟨x, List.mem_cons_of_mem _ (List.mem_cons.mpr hx), hxe⟩

/-! ### per-chunk layout -/

theorem colWidths_ne_nil (v : RTable) (hn : 1 ≤ v.ncols) : v.colWidths ≠ [] := by
  intro e
  have := colWidths_length v
  rw [e] at this; simp at this; omega

theorem slot_not_mem_ruleSegs (g h x r : Bytes) (cw : List Nat) (lp rp : Nat) (ws : WidthString) :
    Seg.slot lp ws rp ∉ ruleSegs g h x r cw := by
  induction cw generalizing g with
  | nil => simp [ruleSegs]
  | cons w t ih =>
    cases t with
    | nil => simp [ruleSegs]
    | cons w' t' =>
      simp only [ruleSegs, List.mem_cons, not_or]
      exact ⟨by simp, by simp, ih x⟩

theorem slot_mem_rowSlots (cw al : List Nat) (cells : List RCell) (k : Nat) (s : SlotD)
    (h : s ∈ rowSlots cw al cells k) : ∃ i, s.ws = cellLineWS cells i k := by
  unfold rowSlots lineSlots at h
  obtain ⟨x, _, rfl⟩ := List.mem_map.mp h
  exact ⟨x.2, rfl⟩

/-- every chunk kind of a boxed render is a line of segments of the common width with the dividers
    at the common offsets; its slot segments carry entries of the row's cells -/
theorem lineKind_boxed (dw : Measure) (d : Decoration) (v : RTable) (ch : Bytes)
    (hg : GlyphOK dw d) (hn : 1 ≤ v.ncols) (hv : ViewOK dw v) (hk : LineKind d v ch) :
    ∃ segs, ch = segBytes segs ++ [LF] ∧ segWidth dw segs = boxedWidth v.colWidths ∧
      divOffsets dw 0 segs = colOffsets 0 v.colWidths ∧
      (∀ lp ws rp, Seg.slot lp ws rp ∈ segs → ∃ cells i k,
          (v.header = some cells ∨ some cells ∈ v.rows) ∧ ws = cellLineWS cells i k) := by
  have hne := colWidths_ne_nil v hn
  cases hk with
  | rule l h x r hm =>
    obtain ⟨h1, h2, h3, h4⟩ := hg.rule_one _ hm
    exact ⟨ruleSegs l h x r v.colWidths, templateLine_boxed d _ l h x r hg.boxed,
      ruleSegs_width dw l h x r _ hne h1 h2 h3 h4, ruleSegs_offsets dw l h x r _ hne 0 h1 h2 h3,
      fun lp ws rp hm => absurd hm (slot_not_mem_ruleSegs _ _ _ _ _ _ _ _)⟩
  | header hs k hh hk =>
    have hw := rowSlots_widths dw v hs k hv (Or.inl hh)
    have hsl : rowSlots v.colWidths v.effAligns hs k ≠ [] := lineSlots_ne_nil _ _ _ hne
    have h1 := hg.one d.vHeader (by simp)
    refine ⟨boxedSegs d.vHeader d.vHeader d.vHeader (rowSlots v.colWidths v.effAligns hs k),
      contentLine_boxed _ _ _ _ (hg.ne _ (by simp)) hsl, ?_, ?_, ?_⟩
    · rw [boxedSegs_width dw _ _ _ _ hsl h1 h1 h1, hw]
    · rw [boxedSegs_offsets dw _ _ _ _ hsl 0 h1 h1, hw]
    · intro lp ws rp hm
      simp only [boxedSegs, List.mem_cons] at hm
      rcases hm with hm | hm | hm
      · cases hm
      · cases hm
      · obtain ⟨s, hs1, hs2⟩ := slot_mem_boxedTail _ _ _ _ _ _ hm
        obtain ⟨i, hi⟩ := slot_mem_rowSlots _ _ _ _ _ hs1
        exact ⟨hs, i, k, Or.inl hh, by rw [← hs2, hi]⟩
  | body cells k hr hk =>
    have hw := rowSlots_widths dw v cells k hv (Or.inr hr)
    have hsl : rowSlots v.colWidths v.effAligns cells k ≠ [] := lineSlots_ne_nil _ _ _ hne
    have h1 := hg.one d.vBodyBorder (by simp)
    have h2 := hg.one d.vBodyInner (by simp)
    refine ⟨boxedSegs d.vBodyBorder d.vBodyInner d.vBodyBorder (rowSlots v.colWidths v.effAligns cells k),
      contentLine_boxed _ _ _ _ (hg.ne _ (by simp)) hsl, ?_, ?_, ?_⟩
    · rw [boxedSegs_width dw _ _ _ _ hsl h1 h2 h1, hw]
    · rw [boxedSegs_offsets dw _ _ _ _ hsl 0 h1 h2, hw]
    · intro lp ws rp hm
      simp only [boxedSegs, List.mem_cons] at hm
      rcases hm with hm | hm | hm
      · cases hm
      · cases hm
      · obtain ⟨s, hs1, hs2⟩ := slot_mem_boxedTail _ _ _ _ _ _ hm
        obtain ⟨i, hi⟩ := slot_mem_rowSlots _ _ _ _ _ hs1
        exact ⟨cells, i, k, Or.inr hr, by rw [← hs2, hi]⟩

/-- every chunk kind of a boxless render is empty (a rule) or a line of slots and single spaces -/
theorem lineKind_boxless (dw : Measure) (d : Decoration) (v : RTable) (ch : Bytes)
    (hb : BoxlessOK d) (hv : ViewOK dw v) (hk : LineKind d v ch) :
    ch = [] ∨ ∃ slots, ch = segBytes (boxlessSegs slots) ++ [LF] ∧
      slots.map SlotD.width = v.colWidths ∧
      segWidth dw (boxlessSegs slots) = boxlessWidth v.colWidths := by
  cases hk with
  | rule l h x r hm => exact Or.inl (templateLine_boxless d _ l h x r hb.boxless)
  | header hs k hh hk =>
    right
    have hw := rowSlots_widths dw v hs k hv (Or.inl hh)
    refine ⟨rowSlots v.colWidths v.effAligns hs k, ?_, hw, ?_⟩
    · rw [hb.vh]; exact contentLine_boxless _ _ _
    · rw [boxlessSegs_width, hw]
  | body cells k hr hk =>
    right
    have hw := rowSlots_widths dw v cells k hv (Or.inr hr)
    refine ⟨rowSlots v.colWidths v.effAligns cells k, ?_, hw, ?_⟩
    · rw [hb.vb, hb.vi]; exact contentLine_boxless _ _ _
    · rw [boxlessSegs_width, hw]

theorem tt_mapM_except_err {α β ε : Type} (f : α → Except ε β) (e : ε) (xs : List α)
    (hall : ∀ x ∈ xs, (∃ b, f x = .ok b) ∨ f x = .error e) (hex : ∃ x ∈ xs, f x = .error e) :
    xs.mapM f = .error e := by
  induction xs with
  | nil => obtain ⟨x, hx, _⟩ := hex; cases hx
  | cons x t ih =>
    rw [List.mapM_cons]
    rcases hall x (by simp) with ⟨b, hb⟩ | he
    · rw [hb]
      have : t.mapM f = .error e := by
        apply ih (fun y hy => hall y (by simp [hy]))
        obtain ⟨y, hy, hye⟩ := hex
        rcases List.mem_cons.mp hy with rfl | hy
        · rw [hb] at hye; cases hye
        · exact ⟨y, hy, hye⟩
      rw [this]; rfl
    · rw [he]; rfl

/-- `renderTextBody_eq`, chunk part (used by C04) -/
theorem c03_line_structure_aux (d : Decoration) (v : RTable) (hn : 1 ≤ v.ncols) (hs : WFShape v) (ha : AlignOK v)
    (hdh : DivsOK d.vHeader d.vHeader d.vHeader) (hdb : DivsOK d.vBodyBorder d.vBodyInner d.vBodyBorder)
    (hnn : ∀ c ∈ v.allCells, ∀ x ∈ c.lws, 0 ≤ x.w) :
    (renderTextBody d v).chunks = specChunks d v := (renderTextBody_eq d v hn hs ha hdh hdb hnn).2

end Tab
