/-
  C13 — specification vocabulary (definitions only, no proofs).

  These are the spec-side definitions the C13 theorems (`Tabmodel/Props/C13.lean`) are stated
  with.  They live here, not in the Props file, only because the helper lemmas in
  `Tabmodel/Proofs/C13*.lean` need them too.  None of them mentions the traversal code
  (`invoke`, `renderCells`, `renderRow`, `renderColumns`, `invokeRenderCallbacks`, `addRow`, ...):
  they are written with list comprehensions over the world's contents.
-/
import Tabmodel.Model.World
namespace Tab

/-! ### callbacks and the events they leave -/

def Cb.isLog : Cb → Bool
  | .log _ => true
  | _ => false

/-- The id a *user* callback records when invoked (`none` for the two built-in measuring callbacks). -/
def Cb.id? : Cb → Option Nat
  | .log id => some id
  | .setProp id _ _ => some id
  | .fail id _ => some id
  | .dimSetter => none
  | .widthSetter => none

/-- ids of the `.log` callbacks of a list, in registration order -/
def logIds (cbs : List Cb) : List Nat :=
  cbs.filterMap (fun cb => match cb with | .log id => some id | _ => none)

/-- "X.time on target": one event per `.log` callback of the list, in registration order. -/
def logEvents (cbs : List Cb) (tgt : Target) : List Event :=
  (logIds cbs).map (fun id => ⟨id, tgt⟩)

/-- The world with `es` appended to the event log and nothing else touched. -/
def World.addEv (w : World) (es : List Event) : World :=
  { w with events := w.events ++ es }

/-! ### where callbacks live -/

/-- The callback sets of the library (`callbackSet` fields in `atable.go`, `column.go`, `row.go`, `cell.go`). -/
inductive CbSlot
  | tableSelf (t : Nat)     -- tableItselfCallbacks
  | tableCell (t : Nat)     -- tableCellCallbacks
  | tableRow (t : Nat)      -- tableRowAdditionCallbacks
  | colSelf (t n : Nat)     -- columnItselfCallbacks of column n of table t
  | colCell (t n : Nat)     -- cellCallbacks of column n of table t
  | rowSelf (r : Nat)       -- rowItselfCallbacks
  | rowCell (r : Nat)       -- rowCellCallbacks
  | cellOwn (r i : Nat)     -- callbacks of cell i of row r
  | copyOwn (n : Nat)       -- callbacks of a cell value held by the caller
  deriving DecidableEq, Repr, Inhabited

/-- The callback set in a slot (the empty set when the slot's owner does not exist). -/
def World.cbSet (w : World) : CbSlot → CbSet
  | .tableSelf t => (w.table t).selfCbs
  | .tableCell t => (w.table t).cellCbs
  | .tableRow t => (w.table t).rowCbs
  | .colSelf t n => ((w.column? t n).map (·.selfCbs)).getD {}
  | .colCell t n => ((w.column? t n).map (·.cellCbs)).getD {}
  | .rowSelf r => (w.row r).selfCbs
  | .rowCell r => (w.row r).cellCbs
  | .cellOwn r i => ((w.cell? r i).map (·.cbs)).getD {}
  | .copyOwn n => ((w.copies[n]?).map (·.cbs)).getD {}

/-- The callbacks registered in slot `s` for time `tm`, in registration order. -/
def World.cbsAt (w : World) (s : CbSlot) (tm : Time) : List Cb := (w.cbSet s).at tm

/-- Does the owner / target object exist in the world? -/
def World.hasObj (w : World) : Target → Prop
  | .table t => t < w.tables.length
  | .column t n => t < w.tables.length ∧ n < (w.table t).columns.length
  | .row r => r < w.rows.length
  | .cell r i => (w.cell? r i).isSome = true
  | .copy n => n < w.copies.length

instance (w : World) (o : Target) : Decidable (w.hasObj o) := by
  cases o <;> unfold World.hasObj <;> infer_instance

/-- The property chain of an object (empty when the object does not exist). -/
def World.chainOf (w : World) : Target → Chain
  | .table t => (w.table t).props
  | .column t n => ((w.column? t n).map (·.props)).getD []
  | .row r => (w.row r).props
  | .cell r i => ((w.cell? r i).map (·.props)).getD []
  | .copy n => ((w.copies[n]?).map (·.props)).getD []

/-- The documented registration matrix (`RegisterPropertyCallback`): which set an
    (owner, target-kind) registration lands in; `none` = refused with an error. -/
def slotFor : Target → World.CbTarget → Option CbSlot
  | .table t, .itself => some (.tableSelf t)
  | .table t, .cell => some (.tableCell t)
  | .table t, .row => some (.tableRow t)
  | .column t n, .itself => some (.colSelf t n)
  | .column t n, .cell => some (.colCell t n)
  | .column _ _, .row => none
  | .row r, .itself => some (.rowSelf r)
  | .row r, .row => some (.rowSelf r)
  | .row r, .cell => some (.rowCell r)
  | .cell r i, .itself => some (.cellOwn r i)
  | .cell r i, .cell => some (.cellOwn r i)
  | .cell _ _, .row => none
  | .copy n, .itself => some (.copyOwn n)
  | .copy n, .cell => some (.copyOwn n)
  | .copy _, .row => none

/-- Everything of a world except its callback sets (used to say "registration changes nothing else"). -/
def CbSet.empty : CbSet := {}
def Cell.noCbs (c : Cell) : Cell := { c with cbs := {} }
def Column.noCbs (c : Column) : Column := { c with selfCbs := {}, cellCbs := {} }
def Row.noCbs (r : Row) : Row :=
  { r with selfCbs := {}, cellCbs := {}, cells := r.cells.map (·.map Cell.noCbs) }
def Table.noCbs (t : Table) : Table :=
  { t with selfCbs := {}, cellCbs := {}, rowCbs := {}, columns := t.columns.map Column.noCbs }
def World.noCbs (w : World) : World :=
  { w with tables := w.tables.map Table.noCbs, rows := w.rows.map Row.noCbs,
           copies := w.copies.map Cell.noCbs }

/-! ### "every callback anywhere in the world is a `.log`" (decidable) -/

def CbSet.allLog (s : CbSet) : Bool :=
  s.add.all Cb.isLog && s.pre.all Cb.isLog && s.render.all Cb.isLog && s.post.all Cb.isLog

def Column.allLog (c : Column) : Bool := c.selfCbs.allLog && c.cellCbs.allLog
def Table.allLog (tb : Table) : Bool :=
  tb.selfCbs.allLog && tb.cellCbs.allLog && tb.rowCbs.allLog && tb.columns.all Column.allLog
def Row.allLog (rw : Row) : Bool :=
  rw.selfCbs.allLog && rw.cellCbs.allLog && (rw.cells.getD []).all (fun ce => ce.cbs.allLog)

def LogOnlyAll (w : World) : Prop :=
  w.tables.all Table.allLog = true ∧ w.rows.all Row.allLog = true ∧
  w.copies.all (fun ce => ce.cbs.allLog) = true

instance (w : World) : Decidable (LogOnlyAll w) := by unfold LogOnlyAll; infer_instance

/-- The same, slot by slot (what the proofs use; implied by `LogOnlyAll`). -/
def LogOnlyAt (w : World) : Prop := ∀ s tm, ∀ cb ∈ w.cbsAt s tm, cb.isLog = true

/-! ### the documented order of one render pass -/

/-- The column whose cell-callbacks apply to cell `i` of row `r` (`Cell.columnOfTable`), as a slot. -/
def colCellAt (w : World) (r i : Nat) (tm : Time) : List Cb :=
  match w.columnOf r i with
  | some (t', n) => w.cbsAt (.colCell t' n) tm
  | none => []

/-- Events of one cell: pre-cell callbacks of table, column, row; render callbacks of table and
    cell; post-cell callbacks of row, column, table. -/
def cellExpected (w : World) (t r i : Nat) : List Event :=
  let tgt := Target.cell r i
  logEvents (w.cbsAt (.tableCell t) .pre) tgt ++
  logEvents (colCellAt w r i .pre) tgt ++
  logEvents (w.cbsAt (.rowCell r) .pre) tgt ++
  logEvents (w.cbsAt (.tableCell t) .render) tgt ++
  logEvents (w.cbsAt (.cellOwn r i) .render) tgt ++
  logEvents (w.cbsAt (.rowCell r) .post) tgt ++
  logEvents (colCellAt w r i .post) tgt ++
  logEvents (w.cbsAt (.tableCell t) .post) tgt

/-- Events of the cells `i, i+1, ..., i+n-1` of a row. -/
def cellsExpected (w : World) (t r i n : Nat) : List Event :=
  (List.range' i n).flatMap (cellExpected w t r)

/-- Events of one row: the row itself (pre), its cells in order, the row itself (post). -/
def rowExpected (w : World) (t r : Nat) : List Event :=
  logEvents (w.cbsAt (.rowSelf r) .pre) (.row r) ++
  (List.range (w.rowCells r).length).flatMap (cellExpected w t r) ++
  logEvents (w.cbsAt (.rowSelf r) .post) (.row r)

/-- Events of the columns-themselves `i, ..., i+n-1` at time `tm`. -/
def colsExpectedFrom (w : World) (t : Nat) (tm : Time) (i n : Nat) : List Event :=
  (List.range' i n).flatMap (fun j => logEvents (w.cbsAt (.colSelf t j) tm) (.column t j))

/-- Events of all the columns themselves (column 0, the defaults column, included). -/
def colsExpected (w : World) (t : Nat) (tm : Time) : List Event :=
  (List.range (w.table t).columns.length).flatMap (fun j => logEvents (w.cbsAt (.colSelf t j) tm) (.column t j))

/-- The rows a render pass visits, in order: the header row (if any), then the body rows. -/
def renderRows (w : World) (t : Nat) : List Nat :=
  (w.table t).header.toList ++ (w.table t).rows

/-- The documented event list of ONE render pass over table `t`. -/
def expectedRender (w : World) (t : Nat) : List Event :=
  logEvents (w.cbsAt (.tableSelf t) .pre) (.table t) ++
  colsExpected w t .pre ++
  (renderRows w t).flatMap (rowExpected w t) ++
  colsExpected w t .post ++
  logEvents (w.cbsAt (.tableSelf t) .post) (.table t)

/-- The cells a render pass visits, in order. -/
def cellTargets (w : World) (t : Nat) : List Target :=
  (renderRows w t).flatMap (fun r => (List.range (w.rowCells r).length).map (fun i => Target.cell r i))

/-- `id` is registered exactly once, in slot `s` at time `tm`, and in no other set of the world. -/
def UniqueIn (w : World) (id : Nat) (s : CbSlot) (tm : Time) : Prop :=
  (logIds (w.cbsAt s tm)).count id = 1 ∧
  ∀ s' tm', id ∈ logIds (w.cbsAt s' tm') → s' = s ∧ tm' = tm

/-! ### which registrations fire in a render pass, on what (the whole matrix) -/

def Time.prePost (tm : Time) : Bool := tm == .pre || tm == .post

/-- does a registration in slot `s` at time `tm` fire on the table itself during a pass over `t`? -/
def tableFires (t : Nat) (s : CbSlot) (tm : Time) : Bool :=
  match s with
  | .tableSelf t' => t == t' && tm.prePost
  | _ => false

/-- ... on column `n` of `t` itself? -/
def colFires (t : Nat) (s : CbSlot) (tm : Time) (n : Nat) : Bool :=
  match s with
  | .colSelf t' n' => t == t' && n == n' && tm.prePost
  | _ => false

/-- ... on row `r` itself? -/
def rowFires (s : CbSlot) (tm : Time) (r : Nat) : Bool :=
  match s with
  | .rowSelf r' => r == r' && tm.prePost
  | _ => false

/-- ... on cell `i` of row `r`?  Table cell-callbacks at the three render times; column and row
    cell-callbacks at pre- and post-cell time only; a cell's own callbacks at render time only. -/
def cellFires (w : World) (t : Nat) (s : CbSlot) (tm : Time) (r i : Nat) : Bool :=
  match s with
  | .tableCell t' => t == t' && tm != .add
  | .colCell t' n => w.columnOf r i == some (t', n) && tm.prePost
  | .rowCell r' => r == r' && tm.prePost
  | .cellOwn r' i' => r == r' && i == i' && tm == .render
  | _ => false

/-- The targets a registration in slot `s` at time `tm` is invoked on during one render pass over
    table `t`, in order.  Table row-callbacks, caller-held cell values, anything registered for time
    `add`, self-callbacks at time `render`, and a cell's own callbacks at pre/post time never fire. -/
def renderTargets (w : World) (t : Nat) (s : CbSlot) (tm : Time) : List Target :=
  (if tableFires t s tm then [Target.table t] else []) ++
  ((List.range (w.table t).columns.length).filter (colFires t s tm)).map (Target.column t) ++
  (renderRows w t).flatMap (fun r =>
    (if rowFires s tm r then [Target.row r] else []) ++
    ((List.range (w.rowCells r).length).filter (cellFires w t s tm r)).map (Target.cell r))

/-- All the slots whose owner exists in the world. -/
def World.cbSlots (w : World) : List CbSlot :=
  (List.range w.tables.length).flatMap (fun t =>
    [CbSlot.tableSelf t, CbSlot.tableCell t, CbSlot.tableRow t] ++
    (List.range (w.table t).columns.length).flatMap (fun n => [CbSlot.colSelf t n, CbSlot.colCell t n])) ++
  (List.range w.rows.length).flatMap (fun r =>
    [CbSlot.rowSelf r, CbSlot.rowCell r] ++ (List.range (w.rowCells r).length).map (CbSlot.cellOwn r)) ++
  (List.range w.copies.length).map CbSlot.copyOwn

def cbTimes : List Time := [.add, .pre, .render, .post]

/-- A decidable check that implies `UniqueIn` (`uniqueInB_sound`). -/
def uniqueInB (w : World) (id : Nat) (s : CbSlot) (tm : Time) : Bool :=
  (logIds (w.cbsAt s tm)).count id == 1 &&
  w.cbSlots.all (fun s' => cbTimes.all (fun tm' =>
    !(logIds (w.cbsAt s' tm')).contains id || (s' == s && tm' == tm)))

/-! ### add-time -/

/-- The state in which `AddRow`'s callbacks run: the row is linked into the table
    (`atable.go:86-96`), before any callback. -/
def addRowLinked (w : World) (t r : Nat) : World :=
  let w := w.modTable t (fun tb => { tb with rows := tb.rows ++ [r] })
  let n := (w.table t).rows.length
  let w := w.modRow r (fun rw => { rw with inTable := some t, rowNum := n })
  let w := w.modTable t (fun tb => World.resizeColumnsAtLeast tb (w.rowCells r).length)
  let es := w.rowErrors r
  let w := w.modTable t (fun tb => { tb with errs := tb.errs ++ es })
  w.modRow r (fun rw => { rw with ec := .table t })

/-- Per-cell add-time events of `AddRow` / `AddHeaders` for the cells `i, ..., i+n-1`:
    the column's cell-callbacks (if the cell has a column), then the table's. -/
def addCellsExpected (w : World) (t r i n : Nat) : List Event :=
  (List.range' i n).flatMap (fun j =>
    logEvents (colCellAt w r j .add) (.cell r j) ++ logEvents (w.cbsAt (.tableCell t) .add) (.cell r j))

/-- Documented add-time events of `AddRow(row r)` on table `t`, evaluated in the linked state `w`. -/
def expectedAddRow (w : World) (t r : Nat) : List Event :=
  logEvents (w.cbsAt (.rowSelf r) .add) (.row r) ++
  logEvents (w.cbsAt (.tableRow t) .add) (.row r) ++
  addCellsExpected w t r 0 (w.rowCells r).length

/-- A row as `Row.Add` builds it: cell `i` points back to the row and has column number `i + 1`. -/
def RowAddWF (w : World) (r : Nat) : Prop :=
  ∀ p ∈ (w.rowCells r).zipIdx, p.1.inRow = some r ∧ p.1.columnNum = p.2 + 1

instance (w : World) (r : Nat) : Decidable (RowAddWF w r) := by unfold RowAddWF; infer_instance

/-- `expectedAddRow` for a well-formed row, in terms of the world before the call: cell `j` gets the
    cell callbacks of column `j + 1` (none if that column did not exist before), then the table's. -/
def expectedAddRowWF (w : World) (t r : Nat) : List Event :=
  logEvents (w.cbsAt (.rowSelf r) .add) (.row r) ++
  logEvents (w.cbsAt (.tableRow t) .add) (.row r) ++
  (List.range (w.rowCells r).length).flatMap (fun j =>
    logEvents (w.cbsAt (.colCell t (j + 1)) .add) (.cell r j) ++ logEvents (w.cbsAt (.tableCell t) .add) (.cell r j))

/-- The cell `Row.Add` stores for the `i`-th cell (0-based) of row `r`. -/
def placedCell (r i : Nat) (ce : Cell) : Cell := { ce with inRow := some r, columnNum := i + 1 }

/-- The state in which `Row.Add`'s callbacks run (`row.go:75-83`): the cell is stored as the last
    cell of row `r` (which held `cs`), and the row's table, if any, has been widened. -/
def rowAddLinked (w : World) (r : Nat) (ce : Cell) (cs : List Cell) : World :=
  let w1 := w.modRow r (fun rw => { rw with cells := some (cs ++ [placedCell r cs.length ce]) })
  match (w1.row r).inTable with
  | some t => w1.modTable t (fun tb => World.resizeColumnsAtLeast tb (cs.length + 1))
  | none => w1

/-- The header cells `AddHeaders(items...)` builds, in order. -/
def addHeadersCells (dw : Measure) (w : World) (hr : Nat) (items : List Nat) : List Cell :=
  items.zipIdx.map (fun p => placedCell hr p.2 (newCell dw p.1 (w.item p.1)))

/-- The state in which `AddHeaders`' callbacks run: a fresh header row `hr = w.rows.length`
    holding the header cells, not `inTable`, sharing the table's error container. -/
def addHeadersLinked (dw : Measure) (w : World) (t : Nat) (items : List Nat) : World :=
  let hr := w.rows.length
  let w1 := w.modTable t (fun tb => World.resizeColumnsAtLeast tb items.length)
  let w2 : World := { w1 with rows := w1.rows ++ [{ cells := some (addHeadersCells dw w hr items), ec := .table t }] }
  w2.modTable t (fun tb => { tb with header := some hr })

/-- Documented add-time events of `AddHeaders(items...)`: the table's row callbacks on the
    header row, then per header cell the table's cell callbacks.  (No column-level callbacks:
    the header row is not `inTable`, so `columnOfTable` is nil for its cells.) -/
def expectedAddHeaders (w : World) (t : Nat) (items : List Nat) : List Event :=
  let hr := w.rows.length
  logEvents (w.cbsAt (.tableRow t) .add) (.row hr) ++
  (List.range items.length).flatMap (fun j => logEvents (w.cbsAt (.tableCell t) .add) (.cell hr j))

end Tab
