/- Helper lemmas for C07: the JSON renderer's writes as a token stream, and the grammar. -/
import Tabmodel.Spec.Json
import Tabmodel.Proofs.EmitLemmas
namespace Tab
namespace C07
open Emit

/-! ## Layer 1: the renderer's loops, mirrored as pure token-producing functions -/

/-- flatten tokens to bytes -/
abbrev flatT (ts : List Tok) : Bytes := ts.flatMap tokBytes

def resOf {α} : Option α → Except Stop α
  | some a => .ok a
  | none => .error (.err .marshal)

/-- mirror of `jsonEmitCells`: tokens written, and `some opened` or `none` for a marshal failure.
`kf i` is (encoded key without the colon, resolved skipable) of cell index `i`. -/
def cellsRun (kf : Nat → Bytes × Bool) (js : JsonStr) : List RCell → Nat → Bool → List Tok × Option Bool
  | [], _, o => ([], some o)
  | c :: cs, i, o =>
    if (kf i).2 && c.empty then cellsRun kf js cs (i + 1) o else
    let pre : List Tok := (if o then [.comma, .ws false] else [.lbrace]) ++ [.key (kf i).1]
    match c.json with
    | none => (pre, none)
    | some _ =>
      let r := cellsRun kf js cs (i + 1) true
      (pre ++ .val (encCell js c) :: r.1, r.2)

theorem encCell_some (js : JsonStr) (c : RCell) (t : Bytes) (h : c.json = some t) :
    (if (t == [123, 125] && c.text != []) = true then js c.text else t) = encCell js c := by
  unfold encCell; rw [h]; simp

theorem jsonEmitCells_run (kf : Nat → Bytes × Bool) (js : JsonStr) (keys : List (Bytes × Bool))
    (cs : List RCell) (i : Nat) (o : Bool)
    (hk : ∀ j, i ≤ j → j < i + cs.length → keys[j]? = some ((kf j).1 ++ [58, 32], (kf j).2)) :
    (jsonEmitCells js keys cs i o).chunks.flatten = flatT (cellsRun kf js cs i o).1 ∧
    (jsonEmitCells js keys cs i o).res = resOf (cellsRun kf js cs i o).2 := by
  induction cs generalizing i o with
  | nil => simp [jsonEmitCells, cellsRun, resOf]
  | cons c cs ih =>
    have hki := hk i (Nat.le_refl _) (by simp)
    have ih' := fun o' => ih (i + 1) o' (fun j h1 h2 => hk j (by omega) (by simp; omega))
    simp only [jsonEmitCells, bind_eq, pure_eq, idx_ok hki, bind'_pure', cellsRun]
    by_cases hs : ((kf i).2 && c.empty) = true
    · simp only [hs, if_true]; exact ih' o
    · simp only [hs]
      cases hj : c.json with
      | none => cases o <;> simp [resOf, tokBytes]
      | some t =>
        simp only [bind'_write, bind'_pure', encCell_some js c t hj]
        have := ih' true
        cases o <;> simp [tokBytes, this.1, this.2]

def stopRes : Option Stop → Except Stop Unit
  | none => .ok ()
  | some e => .error e

/-- mirror of `jsonEmitRow` for `n` keys: tokens written and how it stopped (`none` = fine) -/
def rowRun (kf : Nat → Bytes × Bool) (js : JsonStr) (n : Nat) (cells : List RCell) : List Tok × Option Stop :=
  if n < cells.length then ([], some (.err .structural)) else
  match (cellsRun kf js cells 0 false).2 with
  | none => ((cellsRun kf js cells 0 false).1, some (.err .marshal))
  | some o => ((cellsRun kf js cells 0 false).1 ++ (if o then [.rbrace] else [.lbrace, .rbrace]), none)

/-- the keys list is `kf` tabulated up to `n` -/
def KeysAre (kf : Nat → Bytes × Bool) (n : Nat) (keys : List (Bytes × Bool)) : Prop :=
  keys.length = n ∧ ∀ j < n, keys[j]? = some ((kf j).1 ++ [58, 32], (kf j).2)

theorem jsonEmitRow_run {kf : Nat → Bytes × Bool} {n : Nat} {keys : List (Bytes × Bool)}
    (hk : KeysAre kf n keys) (js : JsonStr) (cells : List RCell) :
    (jsonEmitRow js keys cells).chunks.flatten = flatT (rowRun kf js n cells).1 ∧
    (jsonEmitRow js keys cells).res = stopRes (rowRun kf js n cells).2 := by
  unfold jsonEmitRow rowRun
  rw [hk.1]
  by_cases hl : n < cells.length
  · simp [hl, stopRes]
  · simp only [hl, if_false, bind_eq]
    have := jsonEmitCells_run kf js keys cells 0 false (fun j _ h2 => hk.2 j (by omega))
    cases hr : (cellsRun kf js cells 0 false).2 with
    | none =>
      rw [hr] at this
      have e := bind'_err (f := fun opened => if opened = true then write [125] else write [123, 125]) this.2
      simp [e.1, e.2, this.1, stopRes]
    | some o =>
      rw [hr] at this
      have e := bind'_ok (f := fun opened => if opened = true then write [125] else write [123, 125]) this.2
      rw [e.1, e.2]
      cases o <;> simp [this.1, stopRes, tokBytes]

/-- mirror of `jsonRows` -/
def rowsRun (kf : Nat → Bytes × Bool) (js : JsonStr) (n lastObj : Nat) :
    List (Option (List RCell)) → Nat → Bool → List Tok × Option Stop
  | [], _, _ => ([], none)
  | r :: rs, i, nc =>
    let pre : List Tok := if nc then [.comma, .ws true] else []
    match r with
    | none =>
      let q := rowsRun kf js n lastObj rs (i + 1) false
      (pre ++ .ws true :: q.1, q.2)
    | some cells =>
      match (rowRun kf js n cells).2 with
      | some e => (pre ++ (rowRun kf js n cells).1, some e)
      | none =>
        let q := rowsRun kf js n lastObj rs (i + 1) (decide (i + 1 < lastObj))
        (pre ++ (rowRun kf js n cells).1 ++ q.1, q.2)

theorem jsonRows_run {kf : Nat → Bytes × Bool} {n : Nat} {keys : List (Bytes × Bool)}
    (hk : KeysAre kf n keys) (js : JsonStr) (lastObj : Nat) (rs : List (Option (List RCell))) (i : Nat) (nc : Bool) :
    (jsonRows js keys lastObj rs i nc).chunks.flatten = flatT (rowsRun kf js n lastObj rs i nc).1 ∧
    (jsonRows js keys lastObj rs i nc).res = stopRes (rowsRun kf js n lastObj rs i nc).2 := by
  induction rs generalizing i nc with
  | nil => simp [jsonRows, rowsRun, stopRes]
  | cons r rs ih =>
    cases r with
    | none =>
      have := ih (i + 1) false
      cases nc <;> simp [jsonRows, rowsRun, this.1, this.2, tokBytes, LF]
    | some cells =>
      have hrow := jsonEmitRow_run hk js cells
      have := ih (i + 1) (decide (i + 1 < lastObj))
      cases hr : (rowRun kf js n cells).2 with
      | some e =>
        rw [hr] at hrow
        have e1 := bind'_err (f := fun _ => jsonRows js keys lastObj rs (i + 1) (decide (i + 1 < lastObj))) hrow.2
        cases nc <;> simp [jsonRows, rowsRun, hr, e1.1, e1.2, hrow.1, stopRes, tokBytes, LF]
      | none =>
        rw [hr] at hrow
        have e1 := bind'_ok (f := fun _ => jsonRows js keys lastObj rs (i + 1) (decide (i + 1 < lastObj))) hrow.2
        cases nc <;> simp [jsonRows, rowsRun, hr, e1.1, e1.2, hrow.1, this.1, this.2, stopRes, tokBytes, LF]

/-! ## The header loop -/

def keyFn (js : JsonStr) (v : RTable) (i : Nat) : Bytes × Bool := (js (headerText v i), skipableAt v i)

def keyEntry (js : JsonStr) (v : RTable) (i : Nat) : Bytes × Bool :=
  (js (headerText v i) ++ [58, 32], skipableAt v i)

theorem headerText_of {v : RTable} {hs : List RCell} (hh : v.header = some hs) {i : Nat} {h : RCell}
    (hi : hs[i]? = some h) : headerText v i = h.text := by
  unfold headerText headerCells; rw [hh]; simp [hi]

theorem asBoolOr_default {v : RTable} {d : Bool} (h0 : asBoolOr (v.colSkip.getD 0 none) false = .ok d)
    (i : Nat) (hb : boolOrNone (v.colSkip.getD (i + 1) none) = true) :
    asBoolOr (v.colSkip.getD (i + 1) none) d = .ok (skipableAt v i) := by
  unfold skipableAt
  cases hc : v.colSkip.getD (i + 1) none with
  | none =>
    simp only [asBoolOr]
    cases h00 : v.colSkip.getD 0 none with
    | none => rw [h00] at h0; simp [asBoolOr] at h0; simp [h0]
    | some x =>
      rw [h00] at h0
      cases x <;> simp [asBoolOr] at h0
      simp [h0]
  | some x =>
    rw [hc] at hb
    cases x <;> simp [boolOrNone] at hb
    simp [asBoolOr]

theorem asBoolOr_nonbool {x : Option Val} (d : Bool) (hb : boolOrNone x = false) :
    asBoolOr x d = .error (.err .nonboolSkipable) := by
  cases x with
  | none => simp [boolOrNone] at hb
  | some x => cases x <;> simp [boolOrNone] at hb <;> simp [asBoolOr]

theorem asBoolOr_ok_of {x : Option Val} (d : Bool) (hb : boolOrNone x = true) :
    ∃ b, asBoolOr x d = .ok b := by
  cases x with
  | none => exact ⟨d, rfl⟩
  | some x => cases x <;> simp [boolOrNone] at hb; exact ⟨_, rfl⟩

/-- `seen` holds exactly the header texts of the columns before `i` -/
def SeenIs (v : RTable) (i : Nat) (seen : List Bytes) : Prop :=
  ∀ s, s ∈ seen ↔ ∃ j < i, headerText v j = s

theorem SeenIs_zero (v : RTable) : SeenIs v 0 [] := by
  intro s; simp

theorem SeenIs_succ {v : RTable} {i : Nat} {seen : List Bytes} (h : SeenIs v i seen) :
    SeenIs v (i + 1) (headerText v i :: seen) := by
  intro s
  simp only [List.mem_cons, h s]
  constructor
  · rintro (rfl | ⟨j, hj, rfl⟩)
    · exact ⟨i, Nat.lt_succ_self i, rfl⟩
    · exact ⟨j, Nat.lt_succ_of_lt hj, rfl⟩
  · rintro ⟨j, hj, rfl⟩
    by_cases hji : j = i
    · left; rw [hji]
    · right; exact ⟨j, by omega, rfl⟩

theorem headerDefect_none {v : RTable} {i : Nat} (h : headerDefect v i = none) :
    headerText v i ≠ [] ∧ (¬ ∃ j < i, headerText v j = headerText v i) ∧
      boolOrNone (v.colSkip.getD (i + 1) none) = true := by
  unfold headerDefect at h
  split at h
  · cases h
  · split at h
    · cases h
    · split at h
      · cases h
      · refine ⟨by assumption, by assumption, ?_⟩
        cases hb : boolOrNone (v.colSkip.getD (i + 1) none) <;> simp_all

theorem not_mem_seen {v : RTable} {i : Nat} {seen : List Bytes} (hseen : SeenIs v i seen)
    (h2 : ¬ ∃ j < i, headerText v j = headerText v i) : headerText v i ∉ seen :=
  fun hm => h2 ((hseen _).1 hm)

theorem jsonKeys_step_fine (js : JsonStr) {v : RTable} {hs : List RCell} (hh : v.header = some hs) {d : Bool}
    (h0 : asBoolOr (v.colSkip.getD 0 none) false = .ok d)
    (n i : Nat) (seen : List Bytes) (acc : List (Bytes × Bool)) (hi : i < hs.length)
    (hseen : SeenIs v i seen) (hd : headerDefect v i = none) :
    jsonKeys js v hs d (n + 1) i seen acc =
      jsonKeys js v hs d n (i + 1) (headerText v i :: seen) (acc ++ [keyEntry js v i]) := by
  obtain ⟨h1, h2, h3⟩ := headerDefect_none hd
  have hget : hs[i]? = some hs[i] := List.getElem?_eq_getElem hi
  have ht := headerText_of hh hget
  have hmem := not_mem_seen hseen h2
  simp only [jsonKeys, idxE, hget, bind, Except.bind]
  rw [asBoolOr_default h0 i h3, ← ht]
  simp [h1, hmem, keyEntry]

theorem jsonKeys_step_defect (js : JsonStr) {v : RTable} {hs : List RCell} (hh : v.header = some hs) (d : Bool)
    (n i : Nat) (seen : List Bytes) (acc : List (Bytes × Bool)) (hi : i < hs.length)
    (hseen : SeenIs v i seen) {e : ErrClass} (hd : headerDefect v i = some e) :
    jsonKeys js v hs d (n + 1) i seen acc = .error (.err e) := by
  have hget : hs[i]? = some hs[i] := List.getElem?_eq_getElem hi
  have ht := headerText_of hh hget
  simp only [jsonKeys, idxE, hget, bind, Except.bind]
  unfold headerDefect at hd
  rw [← ht]
  by_cases h1 : headerText v i = []
  · simp only [h1, if_true] at hd; cases hd; simp [h1]
  · simp only [h1, if_false] at hd
    by_cases h2 : ∃ j < i, headerText v j = headerText v i
    · simp only [h2, if_true] at hd; cases hd
      have : headerText v i ∈ seen := (hseen _).2 h2
      simp [h1, this]
    · have hmem := not_mem_seen hseen h2
      simp only [h2, if_false] at hd
      by_cases h3 : boolOrNone (v.colSkip.getD (i + 1) none) = false
      · simp only [h3, if_true] at hd; cases hd
        rw [asBoolOr_nonbool d h3]
        simp [h1, hmem]
      · simp only [h3] at hd; cases hd

theorem jsonKeys_ok (js : JsonStr) {v : RTable} {hs : List RCell} (hh : v.header = some hs) {d : Bool}
    (h0 : asBoolOr (v.colSkip.getD 0 none) false = .ok d) :
    ∀ (n i : Nat) (seen : List Bytes) (acc : List (Bytes × Bool)), i + n ≤ hs.length → SeenIs v i seen →
      (∀ j, i ≤ j → j < i + n → headerDefect v j = none) →
      jsonKeys js v hs d n i seen acc = .ok (acc ++ (List.range' i n).map (keyEntry js v)) := by
  intro n
  induction n with
  | zero => intro i seen acc _ _ _; simp [jsonKeys]
  | succ n ih =>
    intro i seen acc hlen hseen hfine
    rw [jsonKeys_step_fine js hh h0 n i seen acc (by omega) hseen (hfine i (Nat.le_refl _) (by omega))]
    rw [ih (i + 1) _ _ (by omega) (SeenIs_succ hseen) (fun j h1 h2 => hfine j (by omega) (by omega))]
    simp [List.range'_succ]

theorem jsonKeys_err (js : JsonStr) {v : RTable} {hs : List RCell} (hh : v.header = some hs) {d : Bool}
    (h0 : asBoolOr (v.colSkip.getD 0 none) false = .ok d) {e : ErrClass} (i0 : Nat)
    (hd : headerDefect v i0 = some e) :
    ∀ (n i : Nat) (seen : List Bytes) (acc : List (Bytes × Bool)), i + n ≤ hs.length → SeenIs v i seen →
      i ≤ i0 → i0 < i + n → (∀ j, i ≤ j → j < i0 → headerDefect v j = none) →
      jsonKeys js v hs d n i seen acc = .error (.err e) := by
  intro n
  induction n with
  | zero => intro i seen acc _ _ h1 h2; omega
  | succ n ih =>
    intro i seen acc hlen hseen h1 h2 hfine
    by_cases hi : i = i0
    · subst hi
      exact jsonKeys_step_defect js hh d n i seen acc (by omega) hseen hd
    · rw [jsonKeys_step_fine js hh h0 n i seen acc (by omega) hseen (hfine i (Nat.le_refl _) (by omega))]
      exact ih (i + 1) _ _ (by omega) (SeenIs_succ hseen) (by omega) (by omega)
        (fun j h1 h2 => hfine j (by omega) h2)

theorem keysAre_range (js : JsonStr) (v : RTable) (n : Nat) :
    KeysAre (keyFn js v) n ((List.range' 0 n).map (keyEntry js v)) := by
  refine ⟨by simp, ?_⟩
  intro j hj
  simp [hj, keyEntry, keyFn]

/-! ## `renderJson` as a whole -/

/-- the checks that precede the header loop all pass -/
structure PreOK (v : RTable) (hs : List RCell) (d : Bool) : Prop where
  ncols : 1 ≤ v.ncols
  col0 : asBoolOr (v.colSkip.getD 0 none) false = .ok d
  header : v.header = some hs
  hlen : v.ncols ≤ hs.length

theorem renderJson_pre (js : JsonStr) {v : RTable} {hs : List RCell} {d : Bool} (p : PreOK v hs d) :
    renderJson js v =
      bind' (lift (jsonKeys js v hs d v.ncols 0 [] [])) fun keys =>
        bind' (write [91, LF]) fun _ =>
          bind' (jsonRows js keys (lastObject v.rows) v.rows 0 false) fun _ => write [LF, 93, LF] := by
  have h1 : ¬ v.ncols < 1 := by have := p.ncols; omega
  have h2 : ¬ hs.length < v.ncols := by have := p.hlen; omega
  simp only [renderJson, bind_eq, h1, if_false, p.col0, bind'_lift_ok, p.header, h2]

theorem renderJson_keys_err (js : JsonStr) {v : RTable} {hs : List RCell} {d : Bool} (p : PreOK v hs d)
    {e : Stop} (hk : jsonKeys js v hs d v.ncols 0 [] [] = .error e) :
    renderJson js v = ⟨[], .error e⟩ := by
  rw [renderJson_pre js p, hk, bind'_lift_err]

/-- the rows loop of `renderJson`, mirrored -/
def bodyRun (js : JsonStr) (v : RTable) : List Tok × Option Stop :=
  rowsRun (keyFn js v) js v.ncols (lastObject v.rows) v.rows 0 false

theorem renderJson_keys_ok (js : JsonStr) {v : RTable} {hs : List RCell} {d : Bool} (p : PreOK v hs d)
    (hk : jsonKeys js v hs d v.ncols 0 [] [] = .ok ((List.range' 0 v.ncols).map (keyEntry js v))) :
    (renderJson js v).chunks.flatten =
      flatT ([.lbrack, .ws true] ++ (bodyRun js v).1 ++
        (match (bodyRun js v).2 with | none => [.ws true, .rbrack, .ws true] | some _ => [])) ∧
    (renderJson js v).res = stopRes (bodyRun js v).2 := by
  rw [renderJson_pre js p, hk, bind'_lift_ok, bind'_write]
  have hr := jsonRows_run (keysAre_range js v v.ncols) js (lastObject v.rows) v.rows 0 false
  unfold bodyRun
  cases hb : (rowsRun (keyFn js v) js v.ncols (lastObject v.rows) v.rows 0 false).2 with
  | none =>
    rw [hb] at hr
    have e := bind'_ok (f := fun _ => write [LF, 93, LF]) hr.2
    simp only [e.1, e.2]
    simp [hr.1, tokBytes, LF, stopRes]
  | some s =>
    rw [hb] at hr
    have e := bind'_err (f := fun _ => write [LF, 93, LF]) hr.2
    simp only [e.1, e.2]
    simp [hr.1, tokBytes, LF, stopRes]

theorem headerOK_pre {v : RTable} (h : HeaderOK v) :
    ∃ hs d, PreOK v hs d ∧ ∀ j < v.ncols, headerDefect v j = none := by
  obtain ⟨h1, h2, h3, h4, h5, h6, h7⟩ := h
  cases hh : v.header with
  | none => rw [hh] at h3; cases h3
  | some hs =>
    obtain ⟨d, hd⟩ := asBoolOr_ok_of false h2
    refine ⟨hs, d, ⟨h1, hd, hh, by simpa [headerCells, hh] using h4⟩, ?_⟩
    intro j hj
    unfold headerDefect
    have a := h5 j hj
    have b : ¬ ∃ k < j, headerText v k = headerText v j := by
      rintro ⟨k, hk, he⟩; exact h6 j hj k hk he
    have c := h7 j hj
    rw [if_neg a, if_neg b, if_neg (by rw [c]; simp)]

theorem headerOK_of_pre {v : RTable} {hs : List RCell} {d : Bool} (p : PreOK v hs d)
    (hf : ∀ j < v.ncols, headerDefect v j = none) : HeaderOK v := by
  refine ⟨p.ncols, ?_, by simp [p.header], by simpa [headerCells, p.header] using p.hlen,
    fun i hi => (headerDefect_none (hf i hi)).1,
    fun i hi j hj he => (headerDefect_none (hf i hi)).2.1 ⟨j, hj, he⟩,
    fun i hi => (headerDefect_none (hf i hi)).2.2⟩
  have := p.col0
  cases hc : v.colSkip.getD 0 none with
  | none => rfl
  | some x => rw [hc] at this; cases x <;> simp [asBoolOr] at this <;> rfl

/-- under `HeaderOK` the renderer is its rows loop between the brackets -/
theorem renderJson_run (js : JsonStr) {v : RTable} (h : HeaderOK v) :
    (renderJson js v).chunks.flatten =
      flatT ([.lbrack, .ws true] ++ (bodyRun js v).1 ++
        (match (bodyRun js v).2 with | none => [.ws true, .rbrack, .ws true] | some _ => [])) ∧
    (renderJson js v).res = stopRes (bodyRun js v).2 := by
  obtain ⟨hs, d, p, hf⟩ := headerOK_pre h
  have hk := jsonKeys_ok js p.header p.col0 v.ncols 0 [] [] (by have := p.hlen; omega) (SeenIs_zero v)
    (fun j _ h2 => hf j (by omega))
  exact renderJson_keys_ok js p (by simpa using hk)

/-! ## Layer 2: the mirrored loops against the specification's token stream -/

def memberToks : List (Bytes × Bytes) → Bool → List Tok
  | [], _ => []
  | m :: ms, o =>
    (if o then [.comma, .ws false] else [.lbrace]) ++ [.key m.1, .val m.2] ++ memberToks ms true

def membersFrom (js : JsonStr) (v : RTable) (cells : List RCell) (i : Nat) : List (Bytes × Bytes) :=
  (cells.zipIdx i).filterMap (fun (c, i) =>
    if emitted v c i then some (js (headerText v i), encCell js c) else none)

theorem members_eq (js : JsonStr) (v : RTable) (cells : List RCell) :
    members js v cells = membersFrom js v cells 0 := rfl

theorem membersFrom_nil (js : JsonStr) (v : RTable) (i : Nat) : membersFrom js v [] i = [] := rfl

theorem membersFrom_cons (js : JsonStr) (v : RTable) (c : RCell) (cs : List RCell) (i : Nat) :
    membersFrom js v (c :: cs) i =
      if emitted v c i then (js (headerText v i), encCell js c) :: membersFrom js v cs (i + 1)
      else membersFrom js v cs (i + 1) := by
  unfold membersFrom
  rw [List.zipIdx_cons, List.filterMap_cons]
  by_cases h : emitted v c i = true <;> simp [h]

/-- every written cell from index `i` on marshals -/
def CellsGood (v : RTable) (cs : List RCell) (i : Nat) : Prop :=
  ∀ p ∈ cs.zipIdx i, emitted v p.1 p.2 = true → p.1.json.isSome = true

theorem cellsGood_cons {v : RTable} {c : RCell} {cs : List RCell} {i : Nat} :
    CellsGood v (c :: cs) i ↔ (emitted v c i = true → c.json.isSome = true) ∧ CellsGood v cs (i + 1) := by
  unfold CellsGood
  rw [List.zipIdx_cons]
  simp only [List.mem_cons, forall_eq_or_imp]

theorem emitted_false {js : JsonStr} {v : RTable} {c : RCell} {i : Nat} :
    (((keyFn js v i).2 && c.empty) = true) ↔ emitted v c i = false := by
  simp [keyFn, emitted]

theorem cellsRun_prefix (js : JsonStr) (v : RTable) (cs : List RCell) (i : Nat) (o : Bool) :
    (cellsRun (keyFn js v) js cs i o).1 <+: memberToks (membersFrom js v cs i) o := by
  induction cs generalizing i o with
  | nil => simp [cellsRun]
  | cons c cs ih =>
    rw [membersFrom_cons]
    by_cases hs : ((keyFn js v i).2 && c.empty) = true
    · have he := emitted_false.1 hs
      simp only [cellsRun, hs, if_true, he]
      exact ih (i + 1) o
    · have he : emitted v c i = true := by
        cases h : emitted v c i with
        | true => rfl
        | false => exact absurd (emitted_false.2 h) hs
      simp only [cellsRun, hs, he, if_true, memberToks]
      cases hj : c.json with
      | none =>
        simp only [keyFn, List.append_assoc]
        apply (List.prefix_append_right_inj _).2
        simp
      | some t =>
        simp only [keyFn, List.append_assoc]
        apply (List.prefix_append_right_inj _).2
        simp only [List.cons_append, List.nil_append, List.cons_prefix_cons, true_and]
        exact ih (i + 1) true

theorem cellsRun_good (js : JsonStr) (v : RTable) (cs : List RCell) (i : Nat) (o : Bool)
    (hg : CellsGood v cs i) :
    cellsRun (keyFn js v) js cs i o =
      (memberToks (membersFrom js v cs i) o, some (o || !(membersFrom js v cs i).isEmpty)) := by
  induction cs generalizing i o with
  | nil => simp [cellsRun, membersFrom_nil, memberToks]
  | cons c cs ih =>
    obtain ⟨hc, hg'⟩ := cellsGood_cons.1 hg
    rw [membersFrom_cons]
    by_cases hs : ((keyFn js v i).2 && c.empty) = true
    · have he := emitted_false.1 hs
      simp only [cellsRun, hs, if_true, he]
      exact ih (i + 1) o hg'
    · have he : emitted v c i = true := by
        cases h : emitted v c i with
        | true => rfl
        | false => exact absurd (emitted_false.2 h) hs
      simp only [cellsRun, hs, he, if_true, memberToks]
      cases hj : c.json with
      | none => simp [hj] at hc; exact absurd he (by simp [hc])
      | some t =>
        simp only [ih (i + 1) true hg']
        simp [keyFn]

theorem cellsRun_some (js : JsonStr) (v : RTable) (cs : List RCell) (i : Nat) (o b : Bool)
    (h : (cellsRun (keyFn js v) js cs i o).2 = some b) : CellsGood v cs i := by
  induction cs generalizing i o with
  | nil => intro p hp; simp at hp
  | cons c cs ih =>
    rw [cellsGood_cons]
    by_cases hs : ((keyFn js v i).2 && c.empty) = true
    · have he := emitted_false.1 hs
      simp only [cellsRun, hs, if_true] at h
      exact ⟨by simp [he], ih (i + 1) o h⟩
    · simp only [cellsRun, hs] at h
      cases hj : c.json with
      | none => simp [hj] at h
      | some t =>
        simp only [hj] at h
        exact ⟨by simp, ih (i + 1) true h⟩

theorem memberToks_true (ms : List (Bytes × Bytes)) :
    memberToks ms true = ms.flatMap (fun m => [.comma, .ws false, .key m.1, .val m.2]) := by
  induction ms with
  | nil => rfl
  | cons m ms ih => simp [memberToks, ih]

theorem objToks_eq (ms : List (Bytes × Bytes)) :
    objToks ms = memberToks ms false ++ (if ms.isEmpty then [.lbrace, .rbrace] else [.rbrace]) := by
  cases ms with
  | nil => rfl
  | cons m ms => simp [objToks, memberToks, memberToks_true]

/-- a row the renderer accepts: short enough, and every written cell marshals -/
def RowGood (v : RTable) (r : Option (List RCell)) : Prop :=
  ∀ cs ∈ r, cs.length ≤ v.ncols ∧ CellsGood v cs 0

theorem rowRun_prefix (js : JsonStr) (v : RTable) (cells : List RCell) :
    (rowRun (keyFn js v) js v.ncols cells).1 <+: objToks (members js v cells) := by
  unfold rowRun
  by_cases hl : v.ncols < cells.length
  · simp [hl]
  · simp only [hl, if_false]
    have hp := cellsRun_prefix js v cells 0 false
    rw [objToks_eq, members_eq]
    cases hr : (cellsRun (keyFn js v) js cells 0 false).2 with
    | none => exact List.IsPrefix.trans hp (List.prefix_append _ _)
    | some o =>
      have hg := cellsRun_good js v cells 0 false (cellsRun_some js v cells 0 false o hr)
      rw [hg] at hr
      simp only [Bool.false_or, Option.some.injEq] at hr
      rw [hg]
      subst hr
      cases h : (membersFrom js v cells 0).isEmpty <;> simp

theorem rowRun_good (js : JsonStr) (v : RTable) (cells : List RCell)
    (hl : cells.length ≤ v.ncols) (hg : CellsGood v cells 0) :
    rowRun (keyFn js v) js v.ncols cells = (objToks (members js v cells), none) := by
  unfold rowRun
  have hl' : ¬ v.ncols < cells.length := by omega
  simp only [hl', if_false, cellsRun_good js v cells 0 false hg, objToks_eq, members_eq]
  cases h : (membersFrom js v cells 0).isEmpty <;> simp

theorem rowRun_none (js : JsonStr) (v : RTable) (cells : List RCell)
    (h : (rowRun (keyFn js v) js v.ncols cells).2 = none) : RowGood v (some cells) := by
  unfold rowRun at h
  intro cs hcs
  obtain rfl : cells = cs := by simpa using hcs
  by_cases hl : v.ncols < cells.length
  · simp [hl] at h
  · simp only [hl, if_false] at h
    cases hr : (cellsRun (keyFn js v) js cells 0 false).2 with
    | none => simp [hr] at h
    | some o => exact ⟨by omega, cellsRun_some js v cells 0 false o hr⟩

theorem rowRun_some (js : JsonStr) (v : RTable) (cells : List RCell) (e : Stop)
    (h : (rowRun (keyFn js v) js v.ncols cells).2 = some e) :
    (v.ncols < cells.length ∧ e = .err .structural) ∨
      (cells.length ≤ v.ncols ∧ ¬ CellsGood v cells 0 ∧ e = .err .marshal) := by
  unfold rowRun at h
  by_cases hl : v.ncols < cells.length
  · simp [hl] at h; exact .inl ⟨hl, h.symm⟩
  · simp only [hl, if_false] at h
    cases hr : (cellsRun (keyFn js v) js cells 0 false).2 with
    | none =>
      simp [hr] at h
      refine .inr ⟨by omega, ?_, h.symm⟩
      intro hg
      rw [cellsRun_good js v cells 0 false hg] at hr
      cases hr
    | some o => simp [hr] at h

/-! ### `lastObject` -/

def lastFrom (acc : Nat) (rows : List (Option (List RCell))) (k : Nat) : Nat :=
  (rows.zipIdx k).foldl (fun acc (r, i) => if r.isSome then i + 1 else acc) acc

theorem lastFrom_nil (acc k : Nat) : lastFrom acc [] k = acc := rfl

theorem lastFrom_cons (acc k : Nat) (r : Option (List RCell)) (rs : List (Option (List RCell))) :
    lastFrom acc (r :: rs) k = lastFrom (if r.isSome then k + 1 else acc) rs (k + 1) := by
  unfold lastFrom; rw [List.zipIdx_cons, List.foldl_cons]

theorem lastFrom_noobj (acc : Nat) (rs : List (Option (List RCell))) (k : Nat)
    (h : rs.any Option.isSome = false) : lastFrom acc rs k = acc := by
  induction rs generalizing acc k with
  | nil => rfl
  | cons r rs ih =>
    simp only [List.any_cons, Bool.or_eq_false_iff] at h
    rw [lastFrom_cons, h.1, ih _ _ h.2]; simp

theorem lastFrom_obj (acc : Nat) (rs : List (Option (List RCell))) (k : Nat)
    (h : rs.any Option.isSome = true) : k < lastFrom acc rs k := by
  induction rs generalizing acc k with
  | nil => simp at h
  | cons r rs ih =>
    rw [lastFrom_cons]
    by_cases hrs : rs.any Option.isSome = true
    · have := ih (if r.isSome then k + 1 else acc) (k + 1) hrs; omega
    · have hrs' : rs.any Option.isSome = false := by simpa using hrs
      rw [lastFrom_noobj _ _ _ hrs']
      simp only [List.any_cons, hrs', Bool.or_false] at h
      simp [h]

theorem lastObject_split (pre : List (Option (List RCell))) (c : List RCell) (rs : List (Option (List RCell))) :
    lastObject (pre ++ some c :: rs) = lastFrom (pre.length + 1) rs (pre.length + 1) := by
  unfold lastObject lastFrom
  rw [List.zipIdx_append, List.foldl_append, List.zipIdx_cons, List.foldl_cons]
  simp

/-- the renderer's `needComma` test after an object: does a later object exist? -/
theorem needComma_iff (pre : List (Option (List RCell))) (c : List RCell) (rs : List (Option (List RCell))) :
    decide (pre.length + 1 < lastObject (pre ++ some c :: rs)) = rs.any Option.isSome := by
  rw [lastObject_split]
  cases h : rs.any Option.isSome with
  | false => rw [lastFrom_noobj _ _ _ h]; simp
  | true => have := lastFrom_obj (pre.length + 1) rs (pre.length + 1) h; simpa using this

/-! ### the rows loop -/

def preTok (nc : Bool) : List Tok := if nc then [.comma, .ws true] else []

theorem rowsRun_prefix (js : JsonStr) (v : RTable) (full : List (Option (List RCell))) :
    ∀ (rs pre : List (Option (List RCell))) (i : Nat) (nc : Bool), pre.length = i → full = pre ++ rs →
      (rowsRun (keyFn js v) js v.ncols (lastObject full) rs i nc).1 <+: preTok nc ++ rowsToks js v rs := by
  intro rs
  induction rs with
  | nil => intro pre i nc _ _; simp [rowsRun]
  | cons r rs ih =>
    intro pre i nc hi hfull
    have hfull' : full = (pre ++ [r]) ++ rs := by simp [hfull]
    have ih' := fun nc' => ih (pre ++ [r]) (i + 1) nc' (by simp [hi]) hfull'
    cases r with
    | none =>
      simp only [rowsRun, rowsToks, preTok]
      apply (List.prefix_append_right_inj _).2
      simp only [List.cons_prefix_cons, true_and]
      simpa [preTok] using ih' false
    | some cells =>
      simp only [rowsRun, rowsToks]
      cases hr : (rowRun (keyFn js v) js v.ncols cells).2 with
      | some e =>
        simp only [preTok, List.append_assoc]
        apply (List.prefix_append_right_inj _).2
        exact List.IsPrefix.trans (rowRun_prefix js v cells) (List.prefix_append _ _)
      | none =>
        have hg := rowRun_none js v cells hr cells rfl
        rw [rowRun_good js v cells hg.1 hg.2]
        have hc : decide (i + 1 < lastObject full) = rs.any Option.isSome := by
          rw [hfull, ← hi]; exact needComma_iff pre cells rs
        simp only [hc, preTok, List.append_assoc]
        apply (List.prefix_append_right_inj _).2
        apply (List.prefix_append_right_inj _).2
        simpa [preTok] using ih' (rs.any Option.isSome)

theorem rowsRun_good (js : JsonStr) (v : RTable) (full : List (Option (List RCell))) :
    ∀ (rs pre : List (Option (List RCell))) (i : Nat) (nc : Bool), pre.length = i → full = pre ++ rs →
      (∀ r ∈ rs, RowGood v r) → (nc = true → rs ≠ []) →
      rowsRun (keyFn js v) js v.ncols (lastObject full) rs i nc = (preTok nc ++ rowsToks js v rs, none) := by
  intro rs
  induction rs with
  | nil => intro pre i nc _ _ _ hnc; cases nc <;> simp_all [rowsRun, preTok, rowsToks]
  | cons r rs ih =>
    intro pre i nc hi hfull hgood _
    have hfull' : full = (pre ++ [r]) ++ rs := by simp [hfull]
    have ih' := fun nc' => ih (pre ++ [r]) (i + 1) nc' (by simp [hi]) hfull'
      (fun r' hr' => hgood r' (List.mem_cons_of_mem _ hr'))
    cases r with
    | none =>
      simp only [rowsRun, rowsToks, ih' false (by simp), preTok]
      simp
    | some cells =>
      have hg := hgood (some cells) (by simp) cells rfl
      have hc : decide (i + 1 < lastObject full) = rs.any Option.isSome := by
        rw [hfull, ← hi]; exact needComma_iff pre cells rs
      have hne : rs.any Option.isSome = true → rs ≠ [] := by
        intro h he; subst he; simp at h
      simp only [rowsRun, rowsToks, rowRun_good js v cells hg.1 hg.2, hc, ih' _ hne, preTok]
      simp

theorem rowsRun_none (js : JsonStr) (v : RTable) (lastObj : Nat) :
    ∀ (rs : List (Option (List RCell))) (i : Nat) (nc : Bool),
      (rowsRun (keyFn js v) js v.ncols lastObj rs i nc).2 = none → ∀ r ∈ rs, RowGood v r := by
  intro rs
  induction rs with
  | nil => intro i nc _ r hr; simp at hr
  | cons r rs ih =>
    intro i nc h
    cases r with
    | none =>
      simp only [rowsRun] at h
      intro r' hr'
      rcases List.mem_cons.1 hr' with rfl | hm
      · intro cs hcs; simp at hcs
      · exact ih _ _ h r' hm
    | some cells =>
      simp only [rowsRun] at h
      cases hr : (rowRun (keyFn js v) js v.ncols cells).2 with
      | some e => simp [hr] at h
      | none =>
        simp only [hr] at h
        intro r' hr'
        rcases List.mem_cons.1 hr' with rfl | hm
        · exact rowRun_none js v cells hr
        · exact ih _ _ h r' hm

theorem rowsRun_some (js : JsonStr) (v : RTable) (lastObj : Nat) (e : Stop) :
    ∀ (rs : List (Option (List RCell))) (i : Nat) (nc : Bool),
      (rowsRun (keyFn js v) js v.ncols lastObj rs i nc).2 = some e →
      (e = .err .structural ∧ ∃ cs, some cs ∈ rs ∧ v.ncols < cs.length) ∨ e = .err .marshal := by
  intro rs
  induction rs with
  | nil => intro i nc h; simp [rowsRun] at h
  | cons r rs ih =>
    intro i nc h
    cases r with
    | none =>
      simp only [rowsRun] at h
      rcases ih _ _ h with ⟨h1, cs, hcs, hl⟩ | h2
      · exact .inl ⟨h1, cs, List.mem_cons_of_mem _ hcs, hl⟩
      · exact .inr h2
    | some cells =>
      simp only [rowsRun] at h
      cases hr : (rowRun (keyFn js v) js v.ncols cells).2 with
      | some e' =>
        simp only [hr, Option.some.injEq] at h
        subst h
        rcases rowRun_some js v cells e' hr with ⟨hl, he⟩ | ⟨_, _, he⟩
        · exact .inl ⟨he, cells, by simp, hl⟩
        · exact .inr he
      | none =>
        simp only [hr] at h
        rcases ih _ _ h with ⟨h1, cs, hcs, hl⟩ | h2
        · exact .inl ⟨h1, cs, List.mem_cons_of_mem _ hcs, hl⟩
        · exact .inr h2

/-! ## Layer 3: the grammar accepts the specification's token stream -/

theorem prun_append (s : PState) (a b : List Tok) :
    prun s (a ++ b) = match prun s a with | none => none | some s' => prun s' b := by
  induction a generalizing s with
  | nil => rfl
  | cons t a ih =>
    simp only [List.cons_append, prun]
    cases pstep s t with
    | none => rfl
    | some s' => exact ih s'

theorem prun_of_append {s s' : PState} {a : List Tok} (h : prun s a = some s') (b : List Tok) :
    prun s (a ++ b) = prun s' b := by
  rw [prun_append, h]

theorem prun_members (objs : List (List (Bytes × Bytes))) (ms cur : List (Bytes × Bytes)) :
    prun ⟨.objAfter, objs, cur⟩ (ms.flatMap (fun m => [.comma, .ws false, .key m.1, .val m.2])) =
      some ⟨.objAfter, objs, cur ++ ms⟩ := by
  induction ms generalizing cur with
  | nil => simp [prun]
  | cons m ms ih =>
    simp only [List.flatMap_cons, List.cons_append, List.nil_append, prun, pstep]
    rw [ih]; simp

theorem prun_obj (mode : PMode) (hm : mode = .arrFirst ∨ mode = .arrElem)
    (objs : List (List (Bytes × Bytes))) (cur ms : List (Bytes × Bytes)) :
    prun ⟨mode, objs, cur⟩ (objToks ms) = some ⟨.arrAfter, objs ++ [ms], []⟩ := by
  cases ms with
  | nil => rcases hm with rfl | rfl <;> simp [objToks, prun, pstep]
  | cons m ms =>
    have h1 : prun ⟨mode, objs, cur⟩ [.lbrace, .key m.1, .val m.2] = some ⟨.objAfter, objs, [m]⟩ := by
      rcases hm with rfl | rfl <;> simp [prun, pstep]
    simp only [objToks]
    rw [List.append_assoc, prun_of_append h1, prun_of_append (prun_members objs ms [m])]
    simp [prun, pstep]

/-- the objects of a list of rows -/
def objectsOf (js : JsonStr) (v : RTable) (rs : List (Option (List RCell))) : List (List (Bytes × Bytes)) :=
  rs.filterMap (fun r => r.map (members js v))

theorem prun_seps (js : JsonStr) (v : RTable) (s : PState) (rs : List (Option (List RCell)))
    (h : rs.any Option.isSome = false) : prun s (rowsToks js v rs) = some s ∧ objectsOf js v rs = [] := by
  induction rs with
  | nil => exact ⟨rfl, rfl⟩
  | cons r rs ih =>
    simp only [List.any_cons, Bool.or_eq_false_iff] at h
    cases r with
    | some c => simp at h
    | none =>
      have := ih h.2
      refine ⟨?_, ?_⟩
      · simp only [rowsToks, prun, pstep]; exact this.1
      · simp only [objectsOf, List.filterMap_cons, Option.map_none]; exact this.2

/-- the comma automaton: from "expecting an object" the rows' tokens are accepted, and the parser ends
"after an object" iff there was one -/
theorem prun_rows (js : JsonStr) (v : RTable) (rs : List (Option (List RCell))) :
    ∀ (mode : PMode), (mode = .arrFirst ∨ mode = .arrElem) → ∀ (objs : List (List (Bytes × Bytes))),
      prun ⟨mode, objs, []⟩ (rowsToks js v rs) =
        some ⟨if rs.any Option.isSome then .arrAfter else mode, objs ++ objectsOf js v rs, []⟩ := by
  induction rs with
  | nil => intro mode _ objs; simp [rowsToks, prun, objectsOf]
  | cons r rs ih =>
    intro mode hm objs
    cases r with
    | none =>
      simp only [rowsToks, prun, pstep, ih mode hm objs, List.any_cons, Option.isSome_none, Bool.false_or,
        objectsOf, List.filterMap_cons, Option.map_none]
    | some cells =>
      simp only [rowsToks, List.append_assoc]
      rw [prun_of_append (prun_obj mode hm objs [] (members js v cells))]
      cases hany : rs.any Option.isSome with
      | true =>
        simp only [if_true, List.cons_append, List.nil_append, prun, pstep]
        rw [ih .arrElem (.inr rfl)]
        simp [hany, objectsOf]
      | false =>
        have := prun_seps js v ⟨.arrAfter, objs ++ [members js v cells], []⟩ rs hany
        simp only [Bool.false_eq_true, if_false, List.nil_append, this.1]
        simp [objectsOf] at this ⊢
        exact this.2

theorem parseArr_jsonToks (js : JsonStr) (v : RTable) :
    parseArr (jsonToks js v) = some (objects js v) := by
  unfold parseArr jsonToks
  have h1 : prun ⟨.start, [], []⟩ [.lbrack, .ws true] = some ⟨.arrFirst, [], []⟩ := by simp [prun, pstep]
  rw [List.append_assoc, prun_of_append h1, prun_of_append (prun_rows js v v.rows .arrFirst (.inl rfl) [])]
  cases h : v.rows.any Option.isSome <;> simp [prun, pstep, objects, objectsOf]

/-! ## Assembly -/

theorem rowGood_all_iff (v : RTable) :
    (∀ r ∈ v.rows, RowGood v r) ↔ (∀ cs, some cs ∈ v.rows → cs.length ≤ v.ncols) ∧ MarshalOK v := by
  constructor
  · intro h
    exact ⟨fun cs hcs => (h _ hcs cs rfl).1, fun r hr cs hcs => (h r hr cs hcs).2⟩
  · rintro ⟨h1, h2⟩ r hr cs hcs
    have : r = some cs := by simpa using hcs
    subst this
    exact ⟨h1 cs hr, h2 _ hr cs rfl⟩

theorem bodyRun_prefix (js : JsonStr) (v : RTable) : (bodyRun js v).1 <+: rowsToks js v v.rows := by
  have := rowsRun_prefix js v v.rows v.rows [] 0 false rfl rfl
  simpa [preTok, bodyRun] using this

theorem bodyRun_good (js : JsonStr) (v : RTable) (h : ∀ r ∈ v.rows, RowGood v r) :
    bodyRun js v = (rowsToks js v v.rows, none) := by
  have := rowsRun_good js v v.rows v.rows [] 0 false rfl rfl h (by simp)
  simpa [preTok, bodyRun] using this

/-- under `HeaderOK`: success iff every row is acceptable, and then the output is the claimed token stream -/
theorem renderJson_good (js : JsonStr) {v : RTable} (h : HeaderOK v) (hg : ∀ r ∈ v.rows, RowGood v r) :
    (renderJson js v).res = .ok () ∧ (renderJson js v).chunks.flatten = flatT (jsonToks js v) := by
  have hr := renderJson_run js h
  rw [bodyRun_good js v hg] at hr
  exact ⟨hr.2, hr.1⟩

theorem renderJson_ok_rows (js : JsonStr) {v : RTable} (h : HeaderOK v) (hok : (renderJson js v).res = .ok ()) :
    ∀ r ∈ v.rows, RowGood v r := by
  have hr := (renderJson_run js h).2
  rw [hok] at hr
  cases hb : (bodyRun js v).2 with
  | some e => rw [hb] at hr; cases hr
  | none => exact rowsRun_none js v _ _ _ _ hb

/-- under `HeaderOK`, an error comes from the rows loop: it is `structural` (some row is too long) or
`marshal`, and what was written is a token-prefix of the claimed stream -/
theorem renderJson_rows_err (js : JsonStr) {v : RTable} (h : HeaderOK v) {s : Stop}
    (herr : (renderJson js v).res = .error s) :
    ((s = .err .structural ∧ ∃ cs, some cs ∈ v.rows ∧ v.ncols < cs.length) ∨ s = .err .marshal) ∧
    ∃ ts, ts <+: jsonToks js v ∧ (renderJson js v).chunks.flatten = flatT ts := by
  have hr := renderJson_run js h
  rw [herr] at hr
  cases hb : (bodyRun js v).2 with
  | none => rw [hb] at hr; cases hr.2
  | some e =>
    rw [hb] at hr
    have he : s = e := by have := hr.2; simp [stopRes] at this; exact this
    subst he
    refine ⟨rowsRun_some js v _ s _ _ _ hb, [.lbrack, .ws true] ++ (bodyRun js v).1, ?_, by simpa using hr.1⟩
    unfold jsonToks
    rw [List.append_assoc]
    apply (List.prefix_append_right_inj _).2
    exact List.IsPrefix.trans (bodyRun_prefix js v) (List.prefix_append _ _)

theorem exists_least (P : Nat → Prop) (n : Nat) (h : ∃ i < n, P i) :
    ∃ i < n, P i ∧ ∀ j < i, ¬ P j := by
  induction n with
  | zero => obtain ⟨i, hi, _⟩ := h; omega
  | succ n ih =>
    by_cases hn : ∃ i < n, P i
    · obtain ⟨i, hi, hp, hl⟩ := ih hn
      exact ⟨i, by omega, hp, hl⟩
    · obtain ⟨i, hi, hp⟩ := h
      have : i = n := by
        by_cases hin : i < n
        · exact absurd ⟨i, hin, hp⟩ hn
        · omega
      subst this
      exact ⟨i, hi, hp, fun j hj hpj => hn ⟨j, hj, hpj⟩⟩

theorem renderJson_noColumns (js : JsonStr) {v : RTable} (h : v.ncols = 0) :
    renderJson js v = ⟨[], .error (.err .noColumns)⟩ := by
  simp [renderJson, h]; rfl

theorem renderJson_col0 (js : JsonStr) {v : RTable} (h1 : 1 ≤ v.ncols)
    (h : boolOrNone (v.colSkip.getD 0 none) = false) :
    renderJson js v = ⟨[], .error (.err .nonboolSkipable)⟩ := by
  have h1' : ¬ v.ncols < 1 := by omega
  simp only [renderJson, h1', if_false, asBoolOr_nonbool false h, bind_eq, bind'_lift_err]

theorem renderJson_noHeaders (js : JsonStr) {v : RTable} (h1 : 1 ≤ v.ncols)
    (h : boolOrNone (v.colSkip.getD 0 none) = true) (hh : v.header = none) :
    renderJson js v = ⟨[], .error (.err .noHeaders)⟩ := by
  have h1' : ¬ v.ncols < 1 := by omega
  obtain ⟨d, hd⟩ := asBoolOr_ok_of false h
  simp only [renderJson, h1', if_false, hd, bind_eq, bind'_lift_ok, hh]; rfl

theorem renderJson_tooFew (js : JsonStr) {v : RTable} (h1 : 1 ≤ v.ncols)
    (h : boolOrNone (v.colSkip.getD 0 none) = true) {hs : List RCell} (hh : v.header = some hs)
    (hl : hs.length < v.ncols) :
    renderJson js v = ⟨[], .error (.err .tooFewHeaders)⟩ := by
  have h1' : ¬ v.ncols < 1 := by omega
  obtain ⟨d, hd⟩ := asBoolOr_ok_of false h
  simp only [renderJson, h1', if_false, hd, bind_eq, bind'_lift_ok, hh, hl, if_true]; rfl

theorem renderJson_defect (js : JsonStr) {v : RTable} {hs : List RCell} {d : Bool} (p : PreOK v hs d)
    {i : Nat} (hi : i < v.ncols) (hfine : ∀ j < i, headerDefect v j = none) {e : ErrClass}
    (hd : headerDefect v i = some e) :
    renderJson js v = ⟨[], .error (.err e)⟩ := by
  apply renderJson_keys_err js p
  exact jsonKeys_err js p.header p.col0 i hd v.ncols 0 [] [] (by have := p.hlen; omega) (SeenIs_zero v)
    (Nat.zero_le _) (by omega) (fun j _ h2 => hfine j h2)

theorem preOK_of {v : RTable} (h1 : 1 ≤ v.ncols) (h : boolOrNone (v.colSkip.getD 0 none) = true)
    {hs : List RCell} (hh : v.header = some hs) (hl : v.ncols ≤ hs.length) : ∃ d, PreOK v hs d := by
  obtain ⟨d, hd⟩ := asBoolOr_ok_of false h
  exact ⟨d, h1, hd, hh, hl⟩

/-- outside `HeaderOK` the renderer fails before writing anything, with a header-phase error class -/
theorem renderJson_header_err (js : JsonStr) {v : RTable} (h : ¬ HeaderOK v) :
    ∃ e, renderJson js v = ⟨[], .error (.err e)⟩ ∧
      e ∈ [ErrClass.noColumns, .nonboolSkipable, .noHeaders, .tooFewHeaders, .emptyHeader, .dupHeader] := by
  by_cases h1 : v.ncols = 0
  · exact ⟨_, renderJson_noColumns js h1, by simp⟩
  have h1' : 1 ≤ v.ncols := by omega
  cases h0 : boolOrNone (v.colSkip.getD 0 none) with
  | false => exact ⟨_, renderJson_col0 js h1' h0, by simp⟩
  | true =>
    cases hh : v.header with
    | none => exact ⟨_, renderJson_noHeaders js h1' h0 hh, by simp⟩
    | some hs =>
      by_cases hl : hs.length < v.ncols
      · exact ⟨_, renderJson_tooFew js h1' h0 hh hl, by simp⟩
      obtain ⟨d, p⟩ := preOK_of h1' h0 hh (by omega)
      by_cases hall : ∀ j < v.ncols, headerDefect v j = none
      · exact absurd (headerOK_of_pre p hall) h
      · have hex : ∃ i < v.ncols, headerDefect v i ≠ none := by
          apply Classical.byContradiction
          intro hne
          apply hall
          intro j hj
          apply Classical.byContradiction
          intro hd
          exact hne ⟨j, hj, hd⟩
        obtain ⟨i, hi, hd, hleast⟩ := exists_least (fun i => headerDefect v i ≠ none) v.ncols hex
        cases hde : headerDefect v i with
        | none => exact absurd hde hd
        | some e =>
          refine ⟨e, renderJson_defect js p hi (fun j hj => ?_) hde, ?_⟩
          · have := hleast j hj
            simpa using this
          · unfold headerDefect at hde
            split at hde
            · cases hde; simp
            · split at hde
              · cases hde; simp
              · split at hde
                · cases hde; simp
                · cases hde

/-! ## Keys of an object -/

theorem membersFrom_keys_sublist (js : JsonStr) (v : RTable) (cs : List RCell) (i : Nat) :
    ((membersFrom js v cs i).map Prod.fst).Sublist
      ((List.range' i cs.length).map (fun k => js (headerText v k))) := by
  induction cs generalizing i with
  | nil => simp [membersFrom_nil]
  | cons c cs ih =>
    rw [membersFrom_cons, List.length_cons, List.range'_succ, List.map_cons]
    by_cases he : emitted v c i = true
    · simp only [he, if_true, List.map_cons]
      exact (ih (i + 1)).cons_cons _
    · simp only [he]
      exact (ih (i + 1)).cons _

theorem members_keys_nodup (js : JsonStr) (v : RTable) (cs : List RCell) (hl : cs.length ≤ v.ncols)
    (hd : ∀ i < v.ncols, ∀ j < i, js (headerText v j) ≠ js (headerText v i)) :
    ((members js v cs).map Prod.fst).Nodup := by
  rw [members_eq]
  apply List.Pairwise.sublist (membersFrom_keys_sublist js v cs 0)
  rw [List.pairwise_map]
  apply List.Pairwise.imp_of_mem _ (List.pairwise_lt_range' (s := 0) (n := cs.length))
  intro a b _ hb hab
  have hb' : b < v.ncols := by
    have := (List.mem_range'_1.1 hb).2; omega
  exact hd b hb' a hab

end C07
end Tab
