/- Helper lemmas for C03 / C04: slots, segments, rule lines, content lines (function level). -/
import Tabmodel.Spec.Text
namespace Tab

/-! ### slots -/

theorem withinWidthAligned_eq (ws : WidthString) (cw al : Nat) (hw : 0 ≤ ws.w) (hal : al ≤ 3) :
    withinWidthAligned ws cw al = .ok (slotB ws cw al) := by
  unfold withinWidthAligned slotB padSplit slotPad
  have h0 : ¬ ws.w < 0 := by omega
  simp only [h0, if_false]
  have : al = 0 ∨ al = 1 ∨ al = 2 ∨ al = 3 := by omega
  rcases this with h | h | h | h <;> subst h <;> simp [spaces]

theorem slotD_bytes (ws : WidthString) (cw al : Nat) : (slotD ws cw al).bytes = slotB ws cw al := rfl

theorem padSplit_sum (al p : Nat) : (padSplit al p).1 + (padSplit al p).2 = p := by
  unfold padSplit; split
  · simp
  · split
    · simp; omega
    · simp

theorem slotD_width (ws : WidthString) (cw al : Nat) (hw : 0 ≤ ws.w) (hfit : ws.w ≤ cw) :
    (slotD ws cw al).width = cw := by
  unfold SlotD.width slotD
  have := padSplit_sum al (slotPad ws cw)
  simp only
  unfold slotPad at *
  omega

theorem slotD_ws (ws : WidthString) (cw al : Nat) : (slotD ws cw al).ws = ws := rfl

/-! ### joinSP and segments -/

theorem joinSP_cons2 (a b : Bytes) (t : List Bytes) : joinSP (a :: b :: t) = a ++ SP :: joinSP (b :: t) := rfl

theorem segBytes_cons (s : Seg) (t : List Seg) : segBytes (s :: t) = s.bytes ++ segBytes t := by
  simp [segBytes]

theorem segBytes_nil : segBytes [] = [] := rfl

theorem segWidth_cons (dw : Measure) (s : Seg) (t : List Seg) :
    segWidth dw (s :: t) = s.width dw + segWidth dw t := by
  simp [segWidth]

theorem segWidth_nil (dw : Measure) : segWidth dw [] = 0 := rfl

theorem SlotD.seg_bytes (s : SlotD) : s.seg.bytes = s.bytes := rfl
theorem SlotD.seg_width (dw : Measure) (s : SlotD) : s.seg.width dw = s.width := rfl

/-! ### rule lines -/

theorem ruleFields_flatten (g h x r : Bytes) (cw : List Nat) (hne : cw ≠ []) :
    ((([g] ++ cw.flatMap (fun w => [repeatB h (2 + w), x])).dropLast ++ [r])).flatten
      = segBytes (ruleSegs g h x r cw) := by
  induction cw generalizing g with
  | nil => exact absurd rfl hne
  | cons w t ih =>
    cases t with
    | nil =>
      simp [ruleSegs, segBytes, Seg.bytes, Nat.add_comm]
    | cons w' t' =>
      have ih' := ih x (by simp)
      simp only [List.flatMap_cons] at ih' ⊢
      have e : ([g] ++ ([repeatB h (2 + w), x] ++ ([repeatB h (2 + w'), x] ++ List.flatMap (fun w => [repeatB h (2 + w), x]) t'))).dropLast
          = g :: repeatB h (2 + w) :: ([x] ++ ([repeatB h (2 + w'), x] ++ List.flatMap (fun w => [repeatB h (2 + w), x]) t')).dropLast := by
        simp [List.dropLast]
      rw [e]
      simp only [List.cons_append, List.nil_append, List.flatten_cons] at ih' ⊢
      rw [ih']
      simp [ruleSegs, segBytes_cons, Seg.bytes, Nat.add_comm]

theorem templateLine_boxed (d : Decoration) (cw : List Nat) (l h x r : Bytes) (hb : d.isBoxless = false) :
    templateLine d cw l h x r = segBytes (ruleSegs l h x r cw) ++ [LF] := by
  unfold templateLine
  simp only [hb]
  cases cw with
  | nil => simp [ruleSegs, segBytes, Seg.bytes]
  | cons w t =>
    have := ruleFields_flatten l h x r (w :: t) (by simp)
    simp only [List.length_cons, Nat.zero_lt_succ, if_true, Bool.false_eq_true, if_false]
    rw [List.flatten_append, this]
    simp

theorem templateLine_boxless (d : Decoration) (cw : List Nat) (l h x r : Bytes) (hb : d.isBoxless = true) :
    templateLine d cw l h x r = [] := by
  unfold templateLine; simp [hb]

theorem ruleSegs_width (dw : Measure) (g h x r : Bytes) (cw : List Nat) (hne : cw ≠ [])
    (hg : dw g = 1) (hh : dw h = 1) (hx : dw x = 1) (hr : dw r = 1) :
    segWidth dw (ruleSegs g h x r cw) = boxedWidth cw := by
  unfold boxedWidth
  induction cw generalizing g with
  | nil => exact absurd rfl hne
  | cons w t ih =>
    cases t with
    | nil => simp [ruleSegs, segWidth, Seg.width, hg, hh, hr]
    | cons w' t' =>
      have ih' := ih x (by simp) hx
      simp only [ruleSegs, segWidth_cons, ih', Seg.width, hg, hh]
      simp only [List.map_cons, List.sum_cons]
      omega

theorem ruleSegs_offsets (dw : Measure) (g h x r : Bytes) (cw : List Nat) (hne : cw ≠ []) (a : Nat)
    (hg : dw g = 1) (hh : dw h = 1) (hx : dw x = 1) :
    divOffsets dw a (ruleSegs g h x r cw) = colOffsets a cw := by
  induction cw generalizing g a with
  | nil => exact absurd rfl hne
  | cons w t ih =>
    cases t with
    | nil => simp [ruleSegs, divOffsets, colOffsets, Seg.width, hg, hh]; omega
    | cons w' t' =>
      have ih' := ih x (by simp) (a + w + 3) hx
      simp only [ruleSegs, divOffsets, Seg.width, hg, hh]
      rw [show a + 1 + (w + 2) * 1 = a + w + 3 by omega, ih']
      simp [colOffsets]

theorem Seg.bytes_sp : Seg.sp.bytes = [SP] := rfl
theorem Seg.bytes_div (g : Bytes) : (Seg.div g).bytes = g := rfl
theorem Seg.bytes_run (g : Bytes) (k : Nat) : (Seg.run g k).bytes = repeatB g k := rfl

theorem joinSP_cons_ne (a : Bytes) (t : List Bytes) (h : t ≠ []) : joinSP (a :: t) = a ++ SP :: joinSP t := by
  cases t with
  | nil => exact absurd rfl h
  | cons b t => rfl

theorem boxedTail_bytes (I R : Bytes) (slots : List SlotD) (hne : slots ≠ []) :
    joinSP ((slots.map SlotD.bytes).intersperse I ++ [R]) = segBytes (boxedTail I R slots) := by
  induction slots with
  | nil => exact absurd rfl hne
  | cons s t ih =>
    cases t with
    | nil => simp [boxedTail, segBytes_cons, segBytes_nil, Seg.bytes_sp, Seg.bytes_div, joinSP, SlotD.seg_bytes]
    | cons s' t' =>
      have ih' := ih (by simp)
      simp only [boxedTail, segBytes_cons, SlotD.seg_bytes, Seg.bytes_sp, Seg.bytes_div, ← ih']
      simp only [List.map_cons, List.intersperse_cons_cons, List.cons_append]
      rw [joinSP_cons_ne _ _ (by simp), joinSP_cons_ne _ _ (by simp)]
      simp

theorem contentLine_boxed (L I R : Bytes) (slots : List SlotD) (hL : L ≠ []) (hne : slots ≠ []) :
    contentLine L I R slots = segBytes (boxedSegs L I R slots) ++ [LF] := by
  unfold contentLine boxedSegs
  simp only [hL, if_false]
  rw [joinSP_cons_ne _ _ (by simp), boxedTail_bytes I R slots hne]
  simp [segBytes_cons, Seg.bytes_sp, Seg.bytes_div]

theorem boxlessSegs_bytes (slots : List SlotD) :
    joinSP (slots.map SlotD.bytes) = segBytes (boxlessSegs slots) := by
  induction slots with
  | nil => rfl
  | cons s t ih =>
    cases t with
    | nil => simp [boxlessSegs, segBytes_cons, segBytes_nil, joinSP, SlotD.seg_bytes]
    | cons s' t' =>
      simp only [boxlessSegs, segBytes_cons, SlotD.seg_bytes, Seg.bytes_sp, ← ih]
      simp [joinSP]

theorem contentLine_boxless (I R : Bytes) (slots : List SlotD) :
    contentLine [] I R slots = segBytes (boxlessSegs slots) ++ [LF] := by
  unfold contentLine
  simp [boxlessSegs_bytes]


/-! ### content lines: widths and divider offsets -/

theorem Seg.width_sp (dw : Measure) : Seg.sp.width dw = 1 := rfl
theorem Seg.width_div (dw : Measure) (g : Bytes) : (Seg.div g).width dw = dw g := rfl
theorem Seg.width_run (dw : Measure) (g : Bytes) (k : Nat) : (Seg.run g k).width dw = k * dw g := rfl

theorem boxedTail_width (dw : Measure) (I R : Bytes) (slots : List SlotD) (hne : slots ≠ [])
    (hI : dw I = 1) (hR : dw R = 1) :
    segWidth dw (boxedTail I R slots) + 1 = ((slots.map SlotD.width).map (· + 3)).sum := by
  induction slots with
  | nil => exact absurd rfl hne
  | cons s t ih =>
    cases t with
    | nil => simp [boxedTail, segWidth_cons, segWidth_nil, Seg.width_sp, Seg.width_div, SlotD.seg_width, hR]
    | cons s' t' =>
      have ih' := ih (by simp)
      simp only [boxedTail, segWidth_cons, SlotD.seg_width, Seg.width_sp, Seg.width_div, hI, List.map_cons, List.sum_cons] at ih' ⊢
      omega

theorem boxedSegs_width (dw : Measure) (L I R : Bytes) (slots : List SlotD) (hne : slots ≠ [])
    (hL : dw L = 1) (hI : dw I = 1) (hR : dw R = 1) :
    segWidth dw (boxedSegs L I R slots) = boxedWidth (slots.map SlotD.width) := by
  have := boxedTail_width dw I R slots hne hI hR
  unfold boxedSegs boxedWidth
  simp only [segWidth_cons, Seg.width_sp, Seg.width_div, hL]
  omega

theorem colOffsets_cons_tail (a : Nat) (cw : List Nat) : colOffsets a cw = a :: (colOffsets a cw).tail := by
  cases cw <;> simp [colOffsets]

theorem boxedTail_offsets (dw : Measure) (I R : Bytes) (slots : List SlotD) (hne : slots ≠ []) (a : Nat)
    (hI : dw I = 1) :
    divOffsets dw (a + 2) (boxedTail I R slots) = (colOffsets a (slots.map SlotD.width)).tail := by
  induction slots generalizing a with
  | nil => exact absurd rfl hne
  | cons s t ih =>
    cases t with
    | nil =>
      simp [boxedTail, divOffsets, SlotD.seg, Seg.width, colOffsets, SlotD.width]; omega
    | cons s' t' =>
      have ih' := ih (by simp) (a + s.width + 3)
      simp only [boxedTail, divOffsets, SlotD.seg, Seg.width, hI, List.map_cons, colOffsets, List.tail_cons] at ih' ⊢
      rw [show a + 2 + (s.lp + s.ws.w.toNat + s.rp) + 1 + 1 + 1 = a + s.width + 3 + 2 by unfold SlotD.width; omega, ih']
      unfold SlotD.width; congr 1; omega

theorem boxedSegs_offsets (dw : Measure) (L I R : Bytes) (slots : List SlotD) (hne : slots ≠ []) (a : Nat)
    (hL : dw L = 1) (hI : dw I = 1) :
    divOffsets dw a (boxedSegs L I R slots) = colOffsets a (slots.map SlotD.width) := by
  unfold boxedSegs
  simp only [divOffsets, Seg.width, hL]
  rw [show a + 1 + 1 = a + 2 by omega, boxedTail_offsets dw I R slots hne a hI]
  exact (colOffsets_cons_tail a _).symm

theorem boxlessSegs_width (dw : Measure) (slots : List SlotD) :
    segWidth dw (boxlessSegs slots) = boxlessWidth (slots.map SlotD.width) := by
  unfold boxlessWidth
  induction slots with
  | nil => rfl
  | cons s t ih =>
    cases t with
    | nil => simp [boxlessSegs, segWidth_cons, segWidth_nil, SlotD.seg_width]
    | cons s' t' =>
      simp only [boxlessSegs, segWidth_cons, SlotD.seg_width, Seg.width_sp, List.map_cons, List.sum_cons,
        List.length_cons] at ih ⊢
      omega

/-! ### whole-line width under additivity -/

theorem repeatB_eq_flatten (g : Bytes) (k : Nat) : repeatB g k = (List.replicate k g).flatten := by
  induction k with
  | zero => rfl
  | succ n ih => simp [repeatB, List.replicate_succ, ih]

theorem Seg.bytes_eq_atoms (s : Seg) : s.bytes = s.atoms.flatten := by
  cases s <;> simp [Seg.bytes, Seg.atoms, repeatB_eq_flatten]

theorem segBytes_eq_atoms (l : List Seg) : segBytes l = (l.flatMap Seg.atoms).flatten := by
  induction l with
  | nil => rfl
  | cons s t ih => simp [segBytes_cons, ih, Seg.bytes_eq_atoms, List.flatMap_cons]

theorem Seg.width_eq_atoms (dw : Measure) (s : Seg) (hsp : ∀ k, dw (spaces k) = k)
    (hm : ∀ lp ws rp, s = .slot lp ws rp → ws.w = (dw ws.s : Nat)) :
    s.width dw = (s.atoms.map dw).sum := by
  cases s with
  | div g => simp [Seg.width, Seg.atoms]
  | run g k => simp [Seg.width, Seg.atoms, List.map_replicate]
  | sp => have := hsp 1; simp [spaces] at this; simp [Seg.width, Seg.atoms, this]
  | slot lp ws rp =>
    have := hm lp ws rp rfl
    simp [Seg.width, Seg.atoms, hsp, this]; omega

theorem segWidth_eq_atoms (dw : Measure) (l : List Seg) (hsp : ∀ k, dw (spaces k) = k)
    (hm : ∀ lp ws rp, Seg.slot lp ws rp ∈ l → ws.w = (dw ws.s : Nat)) :
    segWidth dw l = ((l.flatMap Seg.atoms).map dw).sum := by
  induction l with
  | nil => rfl
  | cons s t ih =>
    have h1 := Seg.width_eq_atoms dw s hsp (fun lp ws rp e => hm lp ws rp (by simp [e]))
    have h2 := ih (fun lp ws rp e => hm lp ws rp (by simp [e]))
    simp [segWidth_cons, h1, h2, List.flatMap_cons]

theorem dw_segBytes_of_additive (dw : Measure) (l : List Seg) (hadd : AdditiveOn dw l)
    (hsp : ∀ k, dw (spaces k) = k)
    (hm : ∀ lp ws rp, Seg.slot lp ws rp ∈ l → ws.w = (dw ws.s : Nat)) :
    dw (segBytes l) = segWidth dw l := by
  rw [segBytes_eq_atoms, segWidth_eq_atoms dw l hsp hm]; exact hadd


/-! ### Populate -/

theorem dflt_ne (x src : Bytes) (h : src ≠ []) : dflt x src ≠ [] := by
  unfold dflt
  split
  · rename_i hx; intro e; rw [e] at hx; simp at hx
  · exact h

theorem populate_glyphs_ne (d : Decoration) :
    ∀ g ∈ [d.populate.topLeft, d.populate.hOuter, d.populate.hTopDown, d.populate.topRight, d.populate.hBLeft,
      d.populate.hBCross, d.populate.hBRight, d.populate.bTopDown, d.populate.bottomLeft, d.populate.bBottomUp,
      d.populate.bottomRight, d.populate.leftBodyRule, d.populate.hRule, d.populate.crossPiece,
      d.populate.rightBodyRule, d.populate.vHeader, d.populate.vBodyBorder, d.populate.vBodyInner], g ≠ [] := by
  have hH : dflt d.horizontal [72] ≠ [] := dflt_ne _ _ (by decide)
  have hV : dflt d.vertical [86] ≠ [] := dflt_ne _ _ (by decide)
  have hX : dflt d.crossPiece [88] ≠ [] := dflt_ne _ _ (by decide)
  intro g hg
  simp only [Decoration.populate, List.mem_cons, List.not_mem_nil, or_false] at hg
  rcases hg with h | h | h | h | h | h | h | h | h | h | h | h | h | h | h | h | h | h <;> subst h <;>
    first
    | exact hX
    | exact dflt_ne _ _ hH
    | exact dflt_ne _ _ hV
    | exact dflt_ne _ _ hX
    | exact dflt_ne _ _ (dflt_ne _ _ hX)
    | exact dflt_ne _ _ (dflt_ne _ _ hV)
    | exact dflt_ne _ _ (dflt_ne _ _ (dflt_ne _ _ hV))
    | exact dflt_ne _ _ (dflt_ne _ _ (dflt_ne _ _ hX))

theorem populate_isBoxless (d : Decoration) : d.populate.isBoxless = d.isBoxless := rfl

end Tab
