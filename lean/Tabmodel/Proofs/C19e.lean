/-
  Helper lemmas for C19e (`Props/C19e.lean`):
  * `X.Wrap` (`wrapEffect`) changes neither the view, the shape (so `Inv` is kept) nor `GoodTable`;
  * `GoodTable w t` gives the view-level acceptance conditions of the five renderers
    (`HeaderOK`, `MarshalOK`, `AlignOK` of `w.view t`);
  * a good table of a world satisfying the invariant renders `.ok ()` through EVERY wrapper that
    does not carry the empty decoration (`renderTo_ok_of_good`);
  * `auto`'s wrapper is `Format.wrapper` of the resolved style.
-/
import Tabmodel.Props.E2E
import Tabmodel.Props.C10
import Tabmodel.Props.C19
import Tabmodel.Props.C03Decor
import Tabmodel.Proofs.C19eDefs
namespace Tab
open World hiding CellOK

namespace World

/-! ### `wrapEffect` -/

theorem item_wrapEffect (w : World) (k : WKind) (t i : Nat) : (w.wrapEffect k t).item i = w.item i := by
  cases k <;> rfl

theorem rcell_wrapEffect (w : World) (k : WKind) (t : Nat) : (w.wrapEffect k t).rcell = w.rcell := by
  funext c
  unfold rcell
  rw [item_wrapEffect]

/-- a wrap does not change what any renderer reads of any table -/
theorem view_wrapEffect (w : World) (k : WKind) (t t' : Nat) : (w.wrapEffect k t).view t' = w.view t' := by
  unfold view
  rw [table_wrapEffect_skel]
  simp only [rowCells_wrapEffect, row_wrapEffect, rcell_wrapEffect]

theorem shape_wrapEffect (w : World) (k : WKind) (t : Nat) : (w.wrapEffect k t).shape = w.shape := by
  cases k
  case text => exact shape_modTable_id _ _ _ (fun _ => rfl)
  case markdown => exact shape_modTable_id _ _ _ (fun _ => rfl)
  all_goals rfl

theorem inv_wrapEffect {w : World} (h : Inv w) (k : WKind) (t : Nat) : Inv (w.wrapEffect k t) := by
  unfold Inv; rw [shape_wrapEffect]; exact h

theorem headerTexts_wrapEffect (w : World) (k : WKind) (t t' : Nat) :
    (w.wrapEffect k t).headerTexts t' = w.headerTexts t' := by
  unfold headerTexts
  rw [table_wrapEffect_skel]
  simp only [rowCells_wrapEffect]

/-- a wrap keeps a good table good -/
theorem goodTable_wrapEffect (w : World) (k : WKind) (t t' : Nat) (h : GoodTable w t') :
    GoodTable (w.wrapEffect k t) t' := by
  obtain ⟨h1, h2, h3, h4, h5, h6, h7, h8, h9, hL⟩ := h
  have hs := table_wrapEffect_skel w k t t'
  refine ⟨by rw [ntables_wrapEffect]; exact h1, by rw [hs]; exact h2, by rw [hs]; exact h3,
    by rw [headerTexts_wrapEffect, hs]; exact h4, by rw [headerTexts_wrapEffect]; exact h5,
    by rw [headerTexts_wrapEffect]; exact h6, ?_, by rw [hs]; exact h8, by rw [hs]; exact h9,
    logOnly_wrapEffect w k t t' hL⟩
  rw [hs]
  intro r hr ce hce
  rw [rowCells_wrapEffect] at hce
  rw [item_wrapEffect]
  exact h7 r hr ce hce

/-! ### from the world-level predicate to the view-level ones -/

theorem getD_none_of_all {P : Option Val → Prop} (l : List (Option Val)) (i : Nat) (h0 : P none)
    (h : ∀ e ∈ l, P e) : P (l.getD i none) := by
  rw [List.getD_eq_getElem?_getD]
  cases hi : l[i]? with
  | none => exact h0
  | some e => exact h e (List.mem_of_getElem? hi)

theorem view_headerCells (w : World) (t : Nat) :
    (headerCells (w.view t)).map (·.text) = w.headerTexts t := by
  unfold headerCells headerTexts
  show List.map _ (((w.table t).header.map (fun hr => (w.rowCells hr).map w.rcell)).getD []) = _
  cases (w.table t).header with
  | none => rfl
  | some hr =>
    simp only [Option.map_some, Option.getD_some, List.map_map]
    rfl

theorem view_headerText (w : World) (t i : Nat) :
    headerText (w.view t) i = (w.headerTexts t).getD i [] := by
  unfold headerText
  rw [← view_headerCells, List.getD_eq_getElem?_getD, List.getElem?_map]
  cases (headerCells (w.view t))[i]? <;> rfl

theorem headerOK_of_good {w : World} {t : Nat} (h : GoodTable w t) : HeaderOK (w.view t) := by
  obtain ⟨_, h2, h3, h4, h5, h6, _, h8, _, _⟩ := h
  have hskip : ∀ i, boolOrNone ((w.view t).colSkip.getD i none) = true := by
    intro i
    apply getD_none_of_all (P := fun e => boolOrNone e = true) _ _ rfl
    intro e he
    rw [view_colSkip] at he
    obtain ⟨c, hc, rfl⟩ := List.mem_map.mp he
    exact h8 c hc
  have hget : ∀ i, i < (w.table t).nColumns →
      (w.headerTexts t)[i]? = some ((w.headerTexts t).getD i []) := by
    intro i hi
    rw [List.getD_eq_getElem?_getD, List.getElem?_eq_getElem (by omega)]
    rfl
  refine ⟨h2, hskip 0, by rw [view_header_isSome]; exact h3, ?_, ?_, ?_, fun i _ => hskip (i + 1)⟩
  · show (w.table t).nColumns ≤ _
    rw [← h4, ← view_headerCells, List.length_map]
    exact Nat.le_refl _
  · intro i hi
    rw [view_headerText]
    intro he
    apply h5
    rw [← he]
    exact List.mem_of_getElem? (hget i hi)
  · intro i hi j hj
    rw [view_headerText, view_headerText]
    intro he
    have hi' : i < (w.headerTexts t).length := by rw [h4]; exact hi
    have hj' : j < (w.headerTexts t).length := by omega
    have e1 : (w.headerTexts t).getD i [] = (w.headerTexts t)[i] := by
      rw [List.getD_eq_getElem?_getD, List.getElem?_eq_getElem hi']; rfl
    have e2 : (w.headerTexts t).getD j [] = (w.headerTexts t)[j] := by
      rw [List.getD_eq_getElem?_getD, List.getElem?_eq_getElem hj']; rfl
    rw [e1, e2] at he
    exact (List.pairwise_iff_getElem.mp h6) j i hj' hi' hj he

theorem marshalOK_of_good {w : World} {t : Nat} (h : GoodTable w t) : MarshalOK (w.view t) := by
  obtain ⟨_, _, _, _, _, _, h7, _, _, _⟩ := h
  intro r hr cs hcs p hp _
  simp only [view, List.mem_map] at hr
  obtain ⟨rid, hrid, he⟩ := hr
  have hcs' : r = some cs := hcs
  subst hcs'
  split at he
  · cases he
  · simp only [Option.some.injEq] at he
    have hmem : p.1 ∈ cs := by
      obtain ⟨c, i⟩ := p
      exact List.mem_of_getElem? (List.mk_mem_zipIdx_iff_getElem?.mp hp)
    rw [← he] at hmem
    obtain ⟨ce, hce, e⟩ := List.mem_map.mp hmem
    rw [← e]
    show ((w.item ce.item).json).isSome = true
    have := h7 rid hrid ce hce
    cases hj : (w.item ce.item).json with
    | none => exact absurd hj this
    | some _ => rfl

theorem alignOK_of_good {w : World} {t : Nat} (h : GoodTable w t) : AlignOK (w.view t) := by
  obtain ⟨_, _, _, _, _, _, _, _, h9, _⟩ := h
  intro i _
  have : alignValOK ((w.view t).colAlign.getD i none) = true := by
    apply getD_none_of_all (P := fun e => alignValOK e = true) _ _ rfl
    intro e he
    rw [view_colAlign] at he
    obtain ⟨c, hc, rfl⟩ := List.mem_map.mp he
    exact h9 c hc
  cases hv : (w.view t).colAlign.getD i none with
  | none => exact Or.inl rfl
  | some v =>
    rw [hv] at this
    cases v with
    | align a =>
      simp only [alignValOK, Bool.or_eq_true, beq_iff_eq] at this
      exact Or.inr ⟨a, by omega, rfl⟩
    | _ => simp [alignValOK] at this

/-! ### a good table renders through every wrapper -/

/-- On a world satisfying the invariant, a good table renders without error through a wrapper of
    ANY kind; for a text wrapper the one demand on the decoration is that it is not the empty one
    (with at least one column no divider combination can make `renderedLine` index out of range:
    `renderTextBody_no_panic_sharp`). -/
theorem renderTo_ok_of_good (x : Ext) {w : World} (hinv : Inv w) (wr : Wrapper)
    (hg : GoodTable w wr.core) (hd : wr.kind = .text → wr.decor ≠ emptyDecoration) :
    (w.renderTo x wr).2.res = .ok () := by
  have ht := hg.1
  have hn : 1 ≤ (w.view wr.core).ncols := hg.2.1
  have hL : LogOnly w wr.core := hg.2.2.2.2.2.2.2.2.2
  have hwf : WFShape (w.view wr.core) := (c02_view_wf hinv wr.core ht).1
  obtain ⟨_, hwf', hlen', _⟩ := c02_view_wf_after_callbacks x.dw hinv wr.core ht
  have ha' : AlignOK ((invokeRenderCallbacks x.dw w wr.core).view wr.core) :=
    alignOK_irc x.dw w wr.core hL (alignOK_of_good hg)
  have hn' : 1 ≤ ((invokeRenderCallbacks x.dw w wr.core).view wr.core).ncols := by
    rw [irc_view_ncols x.dw w wr.core hL]; exact hn
  cases hk : wr.kind with
  | csv =>
    rw [renderTo_csv x w wr hk, renderCsv_irc x.dw w wr.core hL]
    exact c05_total _ hn hwf
  | json =>
    rw [renderTo_json x w wr hk, renderJson_irc x.dw x.js w wr.core hL]
    exact (c07_valid_mirror x.js _ ⟨headerOK_of_good hg, hwf, marshalOK_of_good hg⟩).1
  | html => exact (e2e_html x w wr hk hL).2.1
  | markdown =>
    rw [renderTo_markdown x w wr hk]
    have hal := alignsOK_of_alignOK _ hlen' ha'
    refine (c08_ok_iff x.dw _ hal).mpr ⟨hn', ?_, hwf', hal⟩
    rw [irc_view_header_isSome x.dw w wr.core hL]
    exact hg.2.2.1
  | text =>
    rw [renderTo_text x w wr hk (hd hk)]
    exact renderTextBody_no_panic_sharp wr.decor _ hwf' ha' (Or.inr (Or.inr hn'))

end World

/-! ### `auto`'s wrapper -/

theorem autoWrapper_eq (reg : Registry) (heavy : Decoration) (style : Bytes) (t : Nat) :
    autoWrapper reg heavy style t = (resolveStyle reg heavy style).wrapper t := by
  unfold autoWrapper Format.wrapper
  cases resolveStyle reg heavy style <;> rfl

theorem wrapper_core (f : Format) (t : Nat) : (f.wrapper t).core = t := by cases f <;> rfl

theorem wrapper_text (f : Format) (t : Nat) (h : (f.wrapper t).kind = .text) :
    f = .text (f.wrapper t).decor := by
  cases f <;> first | rfl | cases h

/-- `auto.RenderTo(t, style)` is: resolve, `Wrap`, `RenderTo` -/
theorem autoRender_eq (x : Ext) (reg : Registry) (heavy : Decoration) (w : World) (t : Nat) (style : Bytes) :
    World.autoRender x reg heavy w t style =
      renderTo x (w.wrapEffect ((resolveStyle reg heavy style).wrapper t).kind t)
        ((resolveStyle reg heavy style).wrapper t) := by
  unfold World.autoRender
  rw [autoWrapper_eq]

/-- a style that resolves to the empty decoration: `auto` wraps (as text), then refuses to render -/
theorem autoRender_empty (x : Ext) (reg : Registry) (heavy : Decoration) (w : World) (t : Nat) (style : Bytes)
    (h : resolveStyle reg heavy style = .text emptyDecoration) :
    (World.autoRender x reg heavy w t style).2.res = .error (.err .noDecoration) ∧
    (World.autoRender x reg heavy w t style).2.chunks = [] ∧
    (World.autoRender x reg heavy w t style).1 = w.wrapEffect .text t ∧
    World.renderString (World.autoRender x reg heavy w t style).2 = ([], some (.err .noDecoration)) := by
  rw [autoRender_eq, h]
  exact (c17_fail_closed reg [] x (w.wrapEffect .text t)).2.1 _ rfl rfl

/-- every built-in registration is plain -/
theorem builtins_plain : ∀ p ∈ Generated.builtins,
    NoDot p.1 ∧ goLower p.1 ∉ reservedNames ∧ p.2 ≠ emptyDecoration := by
  rw [reservedNames, reserved_lit]; decide

/-! ### the example used by the non-vacuity `example`s of Props/C19e.lean -/

namespace C19eExample

/-- the table of the example history `e2eOps` (Proofs/E2EExample.lean: header `a b`, rows `c d`,
    separator, ragged row `e`, column 1 right-aligned, a logging user callback, wrapped as text and
    markdown) is a good table -/
theorem hG : GoodTable (run e2eX.dw e2eOps) 0 := by decide +kernel

/-- `"light"` -/
def sLight : Bytes := [108, 105, 103, 104, 116]

end C19eExample

end Tab
