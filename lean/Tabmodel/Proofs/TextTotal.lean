/-
  C09 (totality), text renderer: `renderTextBody` returns `.ok ()` under the weakest hypotheses —
  no `1 ≤ ncols`, no `CellOK`, no sign condition on the laid-out widths (a negative width just
  yields a slot of spaces).  What is needed: the column-width index is safe (`WFShape`), the
  alignment values are in {unset, left, right, centre} (`AlignOK`), and `renderedLine`'s
  `fields[len-1]` / `fields[:len-1]` accesses are safe (`LineSafe`, implied by `DivsOK`).
-/
import Tabmodel.Proofs.TextFinal
import Tabmodel.Generated.Decorations
namespace Tab
open Emit

/-- the slot for ANY laid-out width (negative: blanks) -/
def slotT (ws : WidthString) (cw al : Nat) : Bytes :=
  if ws.w < 0 then spaces cw else slotB ws cw al

theorem withinWidthAligned_total (ws : WidthString) (cw al : Nat) (hal : al ≤ 3) :
    withinWidthAligned ws cw al = .ok (slotT ws cw al) := by
  unfold slotT
  by_cases h : ws.w < 0
  · unfold withinWidthAligned; simp [h]
  · rw [withinWidthAligned_eq ws cw al (by omega) hal]; simp [h]

/-- the per-column step of `renderedLine` never fails once the two indexings are in range and the
    alignment values are handled ones -/
theorem renderedLine_cols_total (inner : Bytes) (cw : List Nat) (parts : List WidthString) (aligns : List Nat)
    (hparts : cw.length ≤ parts.length) (hal : cw.length ≤ aligns.length) (hal3 : ∀ a ∈ aligns, a ≤ 3) :
    ∃ cols : List (List Bytes),
      (cw.zipIdx).mapM (fun (x : Nat × Nat) => do
        let cs ← idxE parts x.2 "emit.cellStrs[i]"
        let al ← idxE aligns x.2 "emit.colAligns[i]"
        let s ← withinWidthAligned cs x.1 al
        pure (if inner != [] then [s, inner] else [s])) = .ok cols ∧
      cols.length = cw.length ∧ ∀ c ∈ cols, c ≠ [] := by
  refine ⟨(cw.zipIdx).map (fun x =>
      if inner != [] then [slotT (parts.getD x.2 blankWS) x.1 (aligns.getD x.2 0), inner]
      else [slotT (parts.getD x.2 blankWS) x.1 (aligns.getD x.2 0)]), ?_, by simp, ?_⟩
  · apply tt_mapM_except_ok
    intro x hx
    obtain ⟨w, i⟩ := x
    have hm := List.mem_zipIdx hx
    have hi : i < cw.length := by omega
    have hp : parts[i]? = some (parts.getD i blankWS) := by
      simp [List.getD_eq_getElem?_getD, List.getElem?_eq_getElem (show i < parts.length by omega)]
    have ha : aligns[i]? = some (aligns.getD i 0) := by
      simp [List.getD_eq_getElem?_getD, List.getElem?_eq_getElem (show i < aligns.length by omega)]
    have ha3 : aligns.getD i 0 ≤ 3 := by
      apply hal3
      simp [List.getD_eq_getElem?_getD, List.getElem?_eq_getElem (show i < aligns.length by omega)]
    simp only [tt_idxE_ok hp, tt_idxE_ok ha]
    show (do let s ← withinWidthAligned (parts.getD i blankWS) w (aligns.getD i 0); pure _) = _
    rw [withinWidthAligned_total _ _ _ ha3]
    rfl
  · intro c hc
    obtain ⟨x, _, rfl⟩ := List.mem_map.mp hc
    split <;> simp

/-- exactly what keeps `renderedLine` away from `fields[len-1]` / `fields[:len-1]` on an empty
    `fields`: no inner divider, or a left divider, or at least one column -/
def LineSafe (L I : Bytes) (cw : List Nat) : Prop := I = [] ∨ L ≠ [] ∨ cw ≠ []

theorem DivsOK.lineSafe {L I R : Bytes} (h : DivsOK L I R) (cw : List Nat) : LineSafe L I cw := by
  rcases h with ⟨hL, _, _⟩ | ⟨_, hI, _⟩
  · exact Or.inr (Or.inl hL)
  · exact Or.inl hI

/-- `DivsOK x x x` holds for every `x`: the header dividers are one and the same glyph -/
theorem divsOK_same (x : Bytes) : DivsOK x x x := by
  by_cases h : x = []
  · exact Or.inr ⟨h, h, h⟩
  · exact Or.inl ⟨h, h, h⟩

theorem rlFinish_ok (L I R : Bytes) (cols : List (List Bytes)) (cw : List Nat)
    (_hlen : cols.length = cw.length) (_hne : ∀ c ∈ cols, c ≠ []) (_hsafe : LineSafe L I cw) :
    ∃ b, rlFinish L I R cols = .ok b := by
  unfold rlFinish
  simp only []
  split
  · exact ⟨_, rfl⟩
  · split
    · exact ⟨_, rfl⟩
    · split
      · exact ⟨_, rfl⟩
      · exact ⟨_, rfl⟩

/-- one content line never fails -/
theorem renderedLine_ok (L I R : Bytes) (cw : List Nat) (parts : List WidthString) (aligns : List Nat)
    (hparts : cw.length ≤ parts.length) (hal : cw.length ≤ aligns.length) (hal3 : ∀ a ∈ aligns, a ≤ 3)
    (hsafe : LineSafe L I cw) :
    ∃ b, renderedLine L I R cw parts aligns = .ok b := by
  obtain ⟨cols, hc, hlen, hne⟩ := renderedLine_cols_total I cw parts aligns hparts hal hal3
  rw [renderedLine_eq, hc]
  exact rlFinish_ok L I R cols cw hlen hne hsafe

/-- one row never fails -/
theorem ttEmitRow_res_ok (L I R : Bytes) (cw aligns : List Nat) (cells : List RCell) (n : Nat)
    (hcw : cw.length = n) (hal : aligns.length = n) (hal3 : ∀ a ∈ aligns, a ≤ 3)
    (hsafe : LineSafe L I cw) :
    (ttEmitRow L I R cw aligns cells n).res = .ok () := by
  unfold ttEmitRow
  refine (forM'_ok _ _ ?_).1
  intro parts hp
  rw [ttRowLines_eq] at hp
  obtain ⟨k, _, rfl⟩ := List.mem_map.mp hp
  obtain ⟨b, hb⟩ := renderedLine_ok L I R cw ((List.range n).map (fun c => cellLineWS cells c k)) aligns
    (by simp; omega) (by omega) hal3 hsafe
  simp only [bind_eq, hb, bind'_lift_ok]
  rfl

theorem tt_bind_res_ok {β : Type} {m : Emit Unit} {f : Unit → Emit β} {b : β}
    (h1 : m.res = .ok ()) (h2 : (f ()).res = .ok b) : (bind' m f).res = .ok b := by
  rw [tt_bind_unit_ok h1]; exact h2

/-- Sharpest form: the only way `renderTextBody` can stop early on a well-shaped view with handled
    alignment values is a zero-column table whose body dividers have an inner but no border glyph. -/
theorem renderTextBody_no_panic_sharp (d : Decoration) (v : RTable) (hs : WFShape v) (ha : AlignOK v)
    (hdb : d.vBodyInner = [] ∨ d.vBodyBorder ≠ [] ∨ 1 ≤ v.ncols) :
    (renderTextBody d v).res = .ok () := by
  obtain ⟨wsI, hws, hcw⟩ := ttColumnWidths_eq v hs
  have hsafeB : LineSafe d.vBodyBorder d.vBodyInner v.colWidths := by
    rcases hdb with h | h | h
    · exact Or.inl h
    · exact Or.inr (Or.inl h)
    · exact Or.inr (Or.inr (colWidths_ne_nil v h))
  have hrow : ∀ cells L I R, LineSafe L I v.colWidths →
      (ttEmitRow L I R v.colWidths v.effAligns cells v.ncols).res = .ok () := fun cells L I R h =>
    ttEmitRow_res_ok L I R _ _ cells v.ncols (colWidths_length v) (effAligns_length v) (effAligns_le3 v ha) h
  unfold renderTextBody
  simp only [bind_eq, hws, bind'_lift_ok, ttAligns_eq v ha, hcw]
  have hbody : ∀ f : Unit → Emit Unit, (f ()).res = .ok () →
      (bind' (forM' v.rows (fun r => match r with
        | none => write (lineSeparator d v.colWidths)
        | some cells => ttEmitRow d.vBodyBorder d.vBodyInner d.vBodyBorder v.colWidths v.effAligns cells v.ncols)) f).res
        = .ok () := by
    intro f hf
    refine tt_bind_res_ok (forM'_ok _ _ ?_).1 hf
    intro r _
    cases r with
    | none => rfl
    | some cells => exact hrow cells _ _ _ hsafeB
  cases hh : v.header with
  | none =>
    simp only [bind'_write]
    exact hbody _ rfl
  | some hs' =>
    simp only [bind'_write]
    refine tt_bind_res_ok (hrow hs' _ _ _ ((divsOK_same d.vHeader).lineSafe _)) ?_
    exact hbody _ rfl

/-- C09, text renderer: total (returns `.ok ()`, hence neither error nor panic) for EVERY well-shaped
    view with handled alignment values — including zero-column tables, negative laid-out widths and
    cells the measuring callback never visited — as soon as the dividers are all present or all
    absent.  (`hdh` is in fact redundant: see `divsOK_same`.) -/
theorem renderTextBody_no_panic (d : Decoration) (v : RTable) (hs : WFShape v) (ha : AlignOK v)
    (hdh : DivsOK d.vHeader d.vHeader d.vHeader) (hdb : DivsOK d.vBodyBorder d.vBodyInner d.vBodyBorder) :
    (renderTextBody d v).res = .ok () := by
  have _ := hdh
  apply renderTextBody_no_panic_sharp d v hs ha
  rcases hdb with ⟨h, _, _⟩ | ⟨_, h, _⟩
  · exact Or.inr (Or.inl h)
  · exact Or.inl h

/-! ### discharging `DivsOK` for real decorations -/

/-- every Populate-completed decoration (boxless or not) has all content dividers present -/
theorem divsOK_populate (d : Decoration) :
    DivsOK d.populate.vHeader d.populate.vHeader d.populate.vHeader ∧
    DivsOK d.populate.vBodyBorder d.populate.vBodyInner d.populate.vBodyBorder := by
  have h := populate_glyphs_ne d
  have h1 : d.populate.vHeader ≠ [] := h _ (by simp)
  have h2 : d.populate.vBodyBorder ≠ [] := h _ (by simp)
  have h3 : d.populate.vBodyInner ≠ [] := h _ (by simp)
  exact ⟨Or.inl ⟨h1, h1, h1⟩, Or.inl ⟨h2, h3, h2⟩⟩

/-- `decide`-friendly check -/
def divsOKb (d : Decoration) : Bool :=
  (d.vBodyBorder != [] && d.vBodyInner != []) || (d.vBodyBorder == [] && d.vBodyInner == [])

theorem divsOKb_sound (d : Decoration) (h : divsOKb d = true) :
    DivsOK d.vHeader d.vHeader d.vHeader ∧ DivsOK d.vBodyBorder d.vBodyInner d.vBodyBorder := by
  refine ⟨divsOK_same _, ?_⟩
  unfold divsOKb at h
  by_cases hb : d.vBodyBorder = [] <;> by_cases hi : d.vBodyInner = []
  · exact Or.inr ⟨hb, hi, hb⟩
  · simp [hb, hi] at h
  · simp [hb, hi] at h
  · exact Or.inl ⟨hb, hi, hb⟩

/-- the six built-in decorations (regenerated from a run of the real code) all pass -/
theorem builtins_divsOK : ∀ p ∈ Generated.builtins, divsOKb p.2 = true := by decide

/-- hence every built-in decoration renders every well-shaped view -/
theorem builtins_no_panic (v : RTable) (hs : WFShape v) (ha : AlignOK v) :
    ∀ p ∈ Generated.builtins, (renderTextBody p.2 v).res = .ok () := fun p hp =>
  renderTextBody_no_panic p.2 v hs ha (divsOKb_sound p.2 (builtins_divsOK p hp)).1
    (divsOKb_sound p.2 (builtins_divsOK p hp)).2

/-! ### zero columns, explicitly; and `DivsOK` is a real hypothesis -/

namespace TextTotalExample

/-- zero columns: a header with zero cells, a row with zero cells, a separator -/
def zeroView : RTable :=
  { ncols := 0, header := some [], rows := [some [], none, some []], colAlign := [none], colSkip := [none] }
def zeroViewNoHeader : RTable := { zeroView with header := none }

def ascii : Decoration := ({ horizontal := [45], vertical := [124], crossPiece := [43] } : Decoration).populate
def boxless : Decoration := { isBoxless := true }

theorem zero_wf : WFShape zeroView := by decide
theorem zero_al : AlignOK zeroView := by
  intro i hi
  have : i = 0 := by simp [zeroView] at hi; omega
  subst this; left; rfl

example : (renderTextBody ascii zeroView).res = .ok () :=
  renderTextBody_no_panic _ _ zero_wf zero_al (divsOK_populate _).1 (divsOK_populate _).2
example : (renderTextBody boxless zeroView).res = .ok () :=
  renderTextBody_no_panic _ _ zero_wf zero_al (divsOK_same _) (Or.inr ⟨rfl, rfl, rfl⟩)
/-- what a zero-column table looks like: `++` rules and `|` content lines (Go agrees: `fields` is
    `[left]`, its last element is overwritten by `right`) -/
example : (renderTextBody ascii zeroView).output =
    [43, 43, 10, 124, 10, 43, 43, 10, 124, 10, 43, 43, 10, 124, 10, 43, 43, 10] := by decide
example : (renderTextBody boxless zeroView).output = [10, 10, 10] := by decide
example : (renderTextBody ascii zeroViewNoHeader).res = .ok () := by
  refine renderTextBody_no_panic _ _ (by decide) ?_ (divsOK_populate _).1 (divsOK_populate _).2
  intro i hi
  have : i = 0 := by simp [zeroViewNoHeader, zeroView] at hi; omega
  subst this; left; rfl

/-- A hand-made decoration with an inner body divider but no body border, on a zero-column table with
    one (empty) row: `fields` is empty.  Before the repair recorded as D28 (DESIGN.md section 3) the code
    panicked here (`fields[:len(fields)-1]`, slice bounds out of range); now there is nothing to drop
    and the line is empty.  `DivsOK` is therefore no longer needed for totality (it is kept as a
    hypothesis of the older theorems, which stay true). -/
def partialDeco : Decoration := { vBodyInner := [124] }
example : ¬ DivsOK partialDeco.vBodyBorder partialDeco.vBodyInner partialDeco.vBodyBorder := by
  rintro (⟨h, _, _⟩ | ⟨_, h, _⟩)
  · exact h rfl
  · cases h
example : (renderTextBody partialDeco zeroView).res = .ok () := by rfl
/-- the header line can never be the culprit (its three dividers are the same glyph), and with at
    least one column the same decoration renders fine -/
example : (renderTextBody partialDeco { zeroView with ncols := 1, colAlign := [none, none] }).res = .ok () := by
  rfl

end TextTotalExample
end Tab
