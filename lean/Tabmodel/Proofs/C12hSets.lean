/- C12h helper lemmas: for owners that never inherit, the recorded value is the last of the sets
   addressed to the owner; histories whose callbacks only log or fail. -/
import Tabmodel.Proofs.C12hKeys
set_option linter.unusedSimpArgs false
namespace Tab
open World C13 C13x
namespace C12h

theorem step_val_setProp (p : PState) (o' : Target) (k' : Key) (v : Option Val) (o : Target) (k : Key) :
    (p.step (.setProp o' k' v)).val o k =
      if p.shape.hasOwner p.ncopies o' = true ∧ o = o' ∧ k = k' then v else p.val o k := by
  simp only [PState.step]
  by_cases h : p.shape.hasOwner p.ncopies o' = true
  · simp only [h, if_true, true_and]
  · simp [h]

theorem step_val_noInherit (p : PState) (op : BuildOp) (o : Target) (k : Key)
    (h1 : ∀ o' k' v, op ≠ .setProp o' k' v) (h2 : ∀ n, o ≠ .copy n)
    (h3 : op.isRowAddCell = true → ∀ r c, o ≠ .cell r c) : (p.step op).val o k = p.val o k := by
  by_cases hp : plain op = true
  · rw [step_plain p op hp]
  · cases op with
    | setProp o' k' v => exact absurd rfl (h1 o' k' v)
    | regCb o' tm tg cb => rfl
    | copyCell r c =>
      simp only [PState.step]
      split
      · simp only
        rw [if_neg (h2 _)]
      · rfl
    | rowAddCell r ce =>
      simp only [PState.step]
      split
      · split
        · simp only
          rw [if_neg (h3 rfl _ _)]
        · rfl
      · rfl
    | _ => simp [plain] at hp

theorem noInherit_tail {op : BuildOp} {ops : List BuildOp} {o : Target} (h : NoInherit (op :: ops) o = true) :
    NoInherit ops o = true ∧ (∀ n, o ≠ .copy n) ∧ (op.isRowAddCell = true → ∀ r c, o ≠ .cell r c) := by
  cases o with
  | copy n => simp [NoInherit] at h
  | cell r c =>
    simp only [NoInherit, List.all_cons, Bool.and_eq_true, Bool.not_eq_true'] at h
    exact ⟨h.2, fun _ => by simp, fun hh => by rw [h.1] at hh; cases hh⟩
  | table t => exact ⟨rfl, fun _ => by simp, fun _ _ _ => by simp⟩
  | column t n => exact ⟨rfl, fun _ => by simp, fun _ _ _ => by simp⟩
  | row r => exact ⟨rfl, fun _ => by simp, fun _ _ _ => by simp⟩

theorem setsOn_cons_other (op : BuildOp) (ops : List BuildOp) (o : Target) (h : ∀ o' k' v, op ≠ .setProp o' k' v) :
    setsOn (op :: ops) o = setsOn ops o := by
  cases op with
  | setProp o' k' v => exact absurd rfl (h o' k' v)
  | _ => rfl

theorem foldl_val_sets (o : Target) (k : Key) : ∀ (ops : List BuildOp) (p : PState),
    p.addressedFrom ops = true → NoInherit ops o = true →
    (ops.foldl PState.step p).val o k =
      (match (setsOn ops o).reverse.find? (fun q => q.1 = k) with
       | some q => q.2
       | none => p.val o k) := by
  intro ops
  induction ops with
  | nil => intro p _ _; rfl
  | cons op ops ih =>
    intro p ha hn
    obtain ⟨hn', hcopy, hcell⟩ := noInherit_tail hn
    simp only [PState.addressedFrom, Bool.and_eq_true] at ha
    simp only [List.foldl_cons]
    rw [ih (p.step op) ha.2 hn']
    by_cases hs : ∃ o' k' v, op = .setProp o' k' v
    · obtain ⟨o', k', v, rfl⟩ := hs
      have hown : p.shape.hasOwner p.ncopies o' = true := ha.1
      by_cases ho : o' = o
      · subst ho
        have e : setsOn (.setProp o' k' v :: ops) o' = (k', v) :: setsOn ops o' := by
          simp [setsOn]
        rw [e, List.reverse_cons, List.find?_append]
        cases hf : (setsOn ops o').reverse.find? (fun q => q.1 = k) with
        | some q => rfl
        | none =>
          simp only [Option.none_or, List.find?_cons, List.find?_nil, step_val_setProp, hown, true_and]
          by_cases hk : k' = k
          · subst hk; simp
          · have : ¬ k = k' := fun e => hk e.symm
            simp [hk, this]
      · have e : setsOn (.setProp o' k' v :: ops) o = setsOn ops o := by
          simp [setsOn, ho]
        rw [e, step_val_setProp]
        have : ¬ (p.shape.hasOwner p.ncopies o' = true ∧ o = o' ∧ k = k') := fun hh => ho hh.2.1.symm
        rw [if_neg this]
    · have h1 : ∀ o' k' v, op ≠ .setProp o' k' v := fun o' k' v e => hs ⟨o', k', v, e⟩
      rw [setsOn_cons_other op ops o h1, step_val_noInherit p op o k h1 hcopy hcell]

/-! ### callbacks that only log or fail write no key -/

theorem quietFor_of_passive {ops : List BuildOp} (h : Passive ops) (k : Key) : QuietFor k ops := by
  unfold Passive at h
  unfold QuietFor
  rw [List.all_eq_true] at h ⊢
  intro op hop
  refine cbsAll_mono ?_ (h op hop)
  intro cb hcb
  cases cb <;> simp_all [Cb.isPassive, Cb.writes]

theorem run_snoc (dw : Measure) (ops : List BuildOp) (op : BuildOp) :
    run dw (ops ++ [op]) = applyOp dw (run dw ops) op := by
  simp [run, runFrom, List.foldl_append]

end C12h
end Tab
