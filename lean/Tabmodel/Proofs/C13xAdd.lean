/- C13x helper lemmas: add-time callbacks for arbitrary callbacks. -/
import Tabmodel.Proofs.C13xRender
set_option linter.unusedSimpArgs false
namespace Tab
open World C13
namespace C13x

/-! ### `Row.Add` -/

theorem rowAddCell_eq (dw : Measure) (w : World) (r : Nat) (ce : Cell) (cs : List Cell)
    (hcs : (w.row r).cells = some cs) :
    rowAddCell dw w r ce =
      invoke dw (rowAddLinked w r ce cs) (((rowAddLinked w r ce cs).row r).cellCbs.at .add)
        (.cell r cs.length) (.rowLazy r) := by
  unfold rowAddCell
  rw [hcs]
  rfl

theorem rowAddCell_any (dw : Measure) (w : World) (r : Nat) (ce : Cell) (cs : List Cell)
    (hcs : (w.row r).cells = some cs) {J : World → List Event → Prop}
    (hJ : StepInv dw (rowAddLinked w r ce cs) J) (h0 : J (rowAddLinked w r ce cs) []) :
    Ext (rowAddLinked w r ce cs) J (rowAddCell dw w r ce)
      (userEvents (w.cbsAt (.rowCell r) .add) (.cell r cs.length)) := by
  rw [rowAddCell_eq dw w r ce cs hcs]
  have e0 : Ext (rowAddLinked w r ce cs) J (rowAddLinked w r ce cs) [] := ⟨same_refl _, by simp, h0⟩
  have := ext_invoke_slot dw hJ e0 (.rowCell r) .add (cbs := ((rowAddLinked w r ce cs).row r).cellCbs.at .add)
    (fun _ => rfl) (.cell r cs.length) (.rowLazy r)
  refine Ext.cast this ?_
  simp only [List.nil_append, World.cbsAt, World.cbSet, rowAddLinked_row_cbs]

/-! ### per-cell part of `AddRow` / `AddHeaders` -/

theorem addCellsExpectedAny_succ (w : World) (t r i n : Nat) :
    addCellsExpectedAny w t r i (n + 1) =
      userEvents (colCellAt w r i .add) (.cell r i) ++ userEvents (w.cbsAt (.tableCell t) .add) (.cell r i) ++
        addCellsExpectedAny w t r (i + 1) n := by
  simp [addCellsExpectedAny, List.range'_succ]

theorem addTimeCells_any (dw : Measure) {w0 : World} {J : World → List Event → Prop} (hJ : StepInv dw w0 J)
    (t r : Nat) (colTaker : World → Taker) : ∀ (n i : Nat) (w' : World) (es : List Event), Ext w0 J w' es →
      Ext w0 J (addTimeCells dw t r colTaker n i w') (es ++ addCellsExpectedAny w0 t r i n) := by
  intro n
  induction n with
  | zero => intro i w' es h; simpa [addTimeCells, addCellsExpectedAny] using h
  | succ n ih =>
    intro i w' es h
    rw [addCellsExpectedAny_succ]
    simp only [addTimeCells, ← List.append_assoc]
    apply ih
    refine ext_invoke_slot dw hJ ?_ (.tableCell t) .add (fun hs => same_cbsAt hs _ _) _ _
    exact ext_invoke_col dw hJ h r i .add (fun hs => same_colCellCbs hs hs r i .add) _ _

/-! ### `AddRow` -/

theorem addRow_eq (dw : Measure) (w : World) (t r : Nat) :
    addRow dw w t r =
      (let wl := addRowLinked w t r
       let w1 := invoke dw wl ((wl.row r).selfCbs.at .add) (.row r) (.table t)
       let w2 := invoke dw w1 ((w1.table t).rowCbs.at .add) (.row r) (.table t)
       addTimeCells dw t r (fun w => rowECTaker w r) (w2.rowCells r).length 0 w2) := rfl

theorem addRow_any (dw : Measure) (w : World) (t r : Nat) {J : World → List Event → Prop}
    (hJ : StepInv dw (addRowLinked w t r) J) (h0 : J (addRowLinked w t r) []) :
    Ext (addRowLinked w t r) J (addRow dw w t r) (expectedAddRowAny (addRowLinked w t r) t r) := by
  rw [addRow_eq]
  obtain ⟨wl, hwl⟩ : ∃ wl, wl = addRowLinked w t r := ⟨_, rfl⟩
  rw [← hwl] at hJ h0 ⊢
  have e0 : Ext wl J wl [] := ⟨same_refl _, by simp, h0⟩
  extract_lets wl0 w1 w2
  have e1 : Ext wl J w1 ([] ++ userEvents (wl.cbsAt (.rowSelf r) .add) (.row r)) :=
    ext_invoke_slot dw hJ e0 (.rowSelf r) .add (fun _ => rfl) _ _
  have e2 : Ext wl J w2 ([] ++ userEvents (wl.cbsAt (.rowSelf r) .add) (.row r) ++
      userEvents (wl.cbsAt (.tableRow t) .add) (.row r)) :=
    ext_invoke_slot dw hJ e1 (.tableRow t) .add (fun hs => same_cbsAt hs (.tableRow t) .add) _ _
  have e3 := addTimeCells_any dw hJ t r (fun w => rowECTaker w r) (w2.rowCells r).length 0 _ _ e2
  refine Ext.cast e3 ?_
  simp only [expectedAddRowAny, same_rowCells_length e2.same r, List.nil_append]

theorem addRowLinked_events (w : World) (t r : Nat) : (addRowLinked w t r).events = w.events := rfl

theorem expectedAddRowAny_wf {w : World} {t r : Nat} (ht : t < w.tables.length) (hr : r < w.rows.length)
    (hwf : RowAddWF w r) : expectedAddRowAny (addRowLinked w t r) t r = expectedAddRowAnyWF w t r := by
  unfold expectedAddRowAny expectedAddRowAnyWF addCellsExpectedAny
  simp only [World.cbsAt, cbSet_addRowLinked, addRowLinked_rowCells, ← List.range_eq_range']
  congr 1
  apply flatMap_congr'
  intro j hj
  simp only [List.mem_range] at hj
  simp only [colCellAt, columnOf_addRowLinked ht hr hwf hj, World.cbsAt, cbSet_addRowLinked]

/-! ### `AddHeaders` -/

theorem addHeadersLinked_events (dw : Measure) (w : World) (t : Nat) (items : List Nat) :
    (addHeadersLinked dw w t items).events = w.events := rfl

theorem addHeaders_any (dw : Measure) (w : World) (t : Nat) (items : List Nat) {J : World → List Event → Prop}
    (hJ : StepInv dw (addHeadersLinked dw w t items) J) (h0 : J (addHeadersLinked dw w t items) []) :
    Ext (addHeadersLinked dw w t items) J (addHeaders dw w t items) (expectedAddHeadersAny w t items) := by
  rw [addHeaders_pre]
  have hcb := addHeadersLinked_table_cbs dw w t items
  have hcol := addHeadersLinked_columnOf dw w t items
  have hcells := addHeadersLinked_rowCells dw w t items
  obtain ⟨wl, hwl⟩ : ∃ wl, wl = addHeadersLinked dw w t items := ⟨_, rfl⟩
  rw [← hwl] at hJ h0 hcb hcol hcells ⊢
  have e0 : Ext wl J wl [] := ⟨same_refl _, by simp, h0⟩
  extract_lets wl' hr w5
  have e1 : Ext wl J w5 ([] ++ userEvents (wl.cbsAt (.tableRow t) .add) (.row hr)) :=
    ext_invoke_slot dw hJ e0 (.tableRow t) .add (fun _ => rfl) _ _
  have e2 := addTimeCells_any dw hJ t hr (fun _ => Taker.table t) (w5.rowCells hr).length 0 _ _ e1
  refine Ext.cast e2 ?_
  have h4 : ∀ j, colCellAt wl hr j .add = [] := by
    intro j; simp only [colCellAt]; rw [show hr = w.rows.length from rfl, hcol]
  have hlen : (w5.rowCells hr).length = items.length := by
    rw [same_rowCells_length e1.same hr, show hr = w.rows.length from rfl, hcells, addHeadersCells_length]
  simp only [hlen, expectedAddHeadersAny, addCellsExpectedAny, h4, userEvents_nil, List.nil_append, World.cbsAt,
    World.cbSet, hcb.1, hcb.2, List.range_eq_range']
  rfl

end C13x
end Tab
