/- C13x helper lemmas: the render traversal for arbitrary callbacks. -/
import Tabmodel.Proofs.C13xBase
set_option linter.unusedSimpArgs false
namespace Tab
open World C13
namespace C13x

theorem cellsExpectedAny_succ (w : World) (t r i n : Nat) :
    cellsExpectedAny w t r i (n + 1) = cellExpectedAny w t r i ++ cellsExpectedAny w t r (i + 1) n := by
  simp [cellsExpectedAny, List.range'_succ]

theorem renderCells_any (dw : Measure) {w0 : World} {J : World → List Event → Prop} (hJ : StepInv dw w0 J)
    (t r : Nat) : ∀ (n i : Nat) (w' : World) (es : List Event), Ext w0 J w' es →
      Ext w0 J (renderCells dw t r n i w') (es ++ cellsExpectedAny w0 t r i n) := by
  intro n
  induction n with
  | zero => intro i w' es h; simpa [renderCells, cellsExpectedAny] using h
  | succ n ih =>
    intro i w' es h
    rw [cellsExpectedAny_succ, ← List.append_assoc]
    simp only [renderCells]
    apply ih
    unfold cellExpectedAny
    simp only [← List.append_assoc]
    refine ext_invoke_slot dw hJ ?_ (.tableCell t) .post (fun hs => same_cbsAt hs _ _) _ _
    refine ext_invoke_col dw hJ ?_ r i .post (fun hs => same_colCellCbs h.same hs r i .post) _ _
    refine ext_invoke_slot dw hJ ?_ (.rowCell r) .post (fun hs => same_cbsAt hs _ _) _ _
    refine ext_invoke_slot dw hJ ?_ (.cellOwn r i) .render (fun hs => same_cellOwn hs r i .render) _ _
    refine ext_invoke_slot dw hJ ?_ (.tableCell t) .render (fun hs => same_cbsAt hs _ _) _ _
    refine ext_invoke_slot dw hJ ?_ (.rowCell r) .pre (fun hs => same_cbsAt hs _ _) _ _
    refine ext_invoke_col dw hJ ?_ r i .pre (fun hs => same_colCellCbs h.same hs r i .pre) _ _
    exact ext_invoke_slot dw hJ h (.tableCell t) .pre (fun hs => same_cbsAt hs _ _) _ _

theorem Ext.cast {w0 : World} {J : World → List Event → Prop} {w' : World} {es es' : List Event}
    (h : Ext w0 J w' es) (e : es = es') : Ext w0 J w' es' := e ▸ h

theorem renderRow_any (dw : Measure) {w0 : World} {J : World → List Event → Prop} (hJ : StepInv dw w0 J)
    (t r : Nat) (w' : World) (es : List Event) (h : Ext w0 J w' es) :
    Ext w0 J (renderRow dw t w' r) (es ++ rowExpectedAny w0 t r) := by
  have h1 := ext_invoke_slot dw hJ h (.rowSelf r) .pre (cbs := (w'.row r).selfCbs.at .pre)
    (fun hs => same_cbsAt hs (.rowSelf r) .pre) (.row r) (.table t)
  have h2 := (renderCells_any dw hJ t r
    (((invoke dw w' ((w'.row r).selfCbs.at .pre) (.row r) (.table t)).rowCells r).length) 0 _ _ h1).cast
    (es' := es ++ userEvents (w0.cbsAt (.rowSelf r) .pre) (.row r) ++
      cellsExpectedAny w0 t r 0 (w0.rowCells r).length)
    (by rw [same_rowCells_length h1.same r])
  have h3 := ext_invoke_slot dw hJ h2 (.rowSelf r) .post (fun hs => same_cbsAt hs (.rowSelf r) .post)
    (.row r) (.table t)
  refine Ext.cast h3 ?_
  simp only [rowExpectedAny, cellsExpectedAny, List.range_eq_range', List.append_assoc]

theorem renderRows_any (dw : Measure) {w0 : World} {J : World → List Event → Prop} (hJ : StepInv dw w0 J)
    (t : Nat) : ∀ (rs : List Nat) (w' : World) (es : List Event), Ext w0 J w' es →
      Ext w0 J (rs.foldl (renderRow dw t) w') (es ++ rs.flatMap (rowExpectedAny w0 t)) := by
  intro rs
  induction rs with
  | nil => intro w' es h; simpa using h
  | cons r rs ih =>
    intro w' es h
    simp only [List.foldl_cons, List.flatMap_cons, ← List.append_assoc]
    exact ih _ _ (renderRow_any dw hJ t r w' es h)

theorem colsExpectedAnyFrom_succ (w : World) (t : Nat) (tm : Time) (i n : Nat) :
    colsExpectedAnyFrom w t tm i (n + 1) =
      userEvents (w.cbsAt (.colSelf t i) tm) (.column t i) ++ colsExpectedAnyFrom w t tm (i + 1) n := by
  simp [colsExpectedAnyFrom, List.range'_succ]

theorem renderColumns_any (dw : Measure) {w0 : World} {J : World → List Event → Prop} (hJ : StepInv dw w0 J)
    (t : Nat) (tm : Time) : ∀ (n i : Nat) (w' : World) (es : List Event), Ext w0 J w' es →
      Ext w0 J (renderColumns dw t tm n i w') (es ++ colsExpectedAnyFrom w0 t tm i n) := by
  intro n
  induction n with
  | zero => intro i w' es h; simpa [renderColumns, colsExpectedAnyFrom] using h
  | succ n ih =>
    intro i w' es h
    rw [colsExpectedAnyFrom_succ, ← List.append_assoc]
    simp only [renderColumns]
    apply ih
    exact ext_invoke_slot dw hJ h (.colSelf t i) tm (fun hs => same_colSelf hs t i tm) _ _

theorem colsExpectedAny_eq (w : World) (t : Nat) (tm : Time) :
    colsExpectedAny w t tm = colsExpectedAnyFrom w t tm 0 (w.table t).columns.length := by
  simp only [colsExpectedAny, colsExpectedAnyFrom, List.range_eq_range']

/-- One render pass, any callbacks: the event log grows by exactly the documented list, callback sets
    and skeleton are unchanged, and any step-invariant `J` is carried through. -/
theorem invokeRenderCallbacks_any (dw : Measure) {w0 : World} {J : World → List Event → Prop}
    (hJ : StepInv dw w0 J) (t : Nat) (h0 : J w0 []) :
    Ext w0 J (invokeRenderCallbacks dw w0 t) (expectedRenderAny w0 t) := by
  have e0 : Ext w0 J w0 [] := ⟨same_refl _, by simp, h0⟩
  unfold invokeRenderCallbacks
  extract_lets w1 ncol w2 w3 w4 w5
  have e1 : Ext w0 J w1 ([] ++ userEvents (w0.cbsAt (.tableSelf t) .pre) (.table t)) :=
    ext_invoke_slot dw hJ e0 (.tableSelf t) .pre (fun _ => rfl) _ _
  have hn : ncol = (w0.table t).columns.length := same_ncolrecs e1.same t
  have e2 : Ext w0 J w2 (_ ++ colsExpectedAnyFrom w0 t .pre 0 ncol) := renderColumns_any dw hJ t .pre ncol 0 _ _ e1
  have e3 : Ext w0 J w3 ([] ++ userEvents (w0.cbsAt (.tableSelf t) .pre) (.table t) ++
      colsExpectedAnyFrom w0 t .pre 0 ncol ++ (w0.table t).header.toList.flatMap (rowExpectedAny w0 t)) := by
    have hh := same_header e2.same t
    show Ext w0 J (match (w2.table t).header with | some hr => renderRow dw t w2 hr | none => w2) _
    rw [hh]
    cases (w0.table t).header with
    | none => simpa using e2
    | some hr => simpa using renderRow_any dw hJ t hr _ _ e2
  have e4 : Ext w0 J w4 ([] ++ userEvents (w0.cbsAt (.tableSelf t) .pre) (.table t) ++
      colsExpectedAnyFrom w0 t .pre 0 ncol ++ (w0.table t).header.toList.flatMap (rowExpectedAny w0 t) ++
      (w0.table t).rows.flatMap (rowExpectedAny w0 t)) :=
    (renderRows_any dw hJ t (w3.table t).rows _ _ e3).cast (by rw [same_rows e3.same t])
  have e5 := renderColumns_any dw hJ t .post ncol 0 _ _ e4
  have e6 := ext_invoke_slot dw hJ e5 (.tableSelf t) .post (cbs := (w5.table t).selfCbs.at .post)
    (fun hs => same_cbsAt hs (.tableSelf t) .post) (.table t) (.table t)
  refine Ext.cast e6 ?_
  simp only [expectedRenderAny, renderRows, colsExpectedAny_eq, hn, List.flatMap_append, List.append_assoc,
    List.nil_append]

end C13x
end Tab
