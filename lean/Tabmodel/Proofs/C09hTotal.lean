/-
  C09h helper lemmas, part 3: every renderer is total on every view the structural invariant can
  produce — `c09_view_total` / `c09_total_inv` of `Props/C09.lean`, re-assembled WITHOUT importing
  `Props/C07.lean` (whose `Spec/Json.lean` cannot be imported together with `Proofs/C12hDefs.lean`:
  both declare `Tab.PState`); the JSON part is `C09h.renderJson_noPanic`.
-/
import Tabmodel.Proofs.C09hJson
import Tabmodel.Props.C02
import Tabmodel.Props.C05
import Tabmodel.Props.C08
import Tabmodel.Proofs.TextTotal
import Tabmodel.Model.Render
namespace Tab
namespace C09h
open World

/-- alignment values within their documented domain imply the Markdown renderer's weaker demand
    (`alignsOK_of_alignOK` of Props/C09.lean) -/
theorem alignsOK_of_alignOK' (v : RTable) (hlen : v.colAlign.length = v.ncols + 1) (ha : AlignOK v) :
    AlignsOK v := by
  unfold AlignsOK
  rw [List.all_eq_true]
  intro e he
  obtain ⟨i, hi, hget⟩ := List.getElem_of_mem he
  have hle : i ≤ v.ncols := by omega
  have hd : v.colAlign.getD i none = e := by
    simp [List.getD_eq_getElem?_getD, List.getElem?_eq_getElem hi, hget]
  rcases ha i hle with h | ⟨a, _, h⟩
  · rw [hd] at h; subst h; rfl
  · rw [hd] at h; subst h; rfl

/-- No panic from any world satisfying the structural invariant, any table id, given `AlignOK` of the
    view after the pass and a decoration whose body dividers are all present or all absent. -/
theorem total_inv (x : Ext) (w : World) (hinv : Inv w) (wr : Wrapper)
    (ha : AlignOK ((invokeRenderCallbacks x.dw w wr.core).view wr.core))
    (hd : wr.kind = .text → DivsOK wr.decor.vBodyBorder wr.decor.vBodyInner wr.decor.vBodyBorder) :
    ∀ site, (w.renderTo x wr).2.res ≠ .error (.panic site) := by
  intro site
  obtain ⟨hs, hlen, _⟩ := view_wf (c02_inv_render x.dw hinv wr.core) wr.core
  unfold World.renderTo
  cases hk : wr.kind with
  | text =>
    simp only []
    split
    · simp [Emit.fail]
    · simp only []
      rw [renderTextBody_no_panic wr.decor _ hs ha (divsOK_same _) (hd hk)]
      intro h; cases h
  | csv => exact c05_no_panic _ site
  | json => exact renderJson_noPanic x.js _ site
  | markdown => exact c08_no_panic x.dw _ (alignsOK_of_alignOK' _ hlen ha) site
  | html => simp [renderHtml, Emit.write]

end C09h
end Tab
