/-
  C03m helpers, part 8: the spec-level code-point reader `cpOfExact` agrees with the model of Go's
  decoder (`runeLen`, Model/Bytes.lean): a string it accepts is exactly one rune for Go.
-/
import Tabmodel.Proofs.C03mDefs
namespace Tab

theorem u8_not_lt (a b : UInt8) (h : b ≤ a) : ¬ a < b := by
  rw [UInt8.le_iff_toNat_le] at h; rw [UInt8.lt_iff_toNat_lt]; omega

theorem u8_not_le_of_le (a : UInt8) (lo hi : UInt8) (h : lo ≤ a) (hlt : hi.toNat < lo.toNat) : ¬ a ≤ hi := by
  rw [UInt8.le_iff_toNat_le] at h ⊢; omega

theorem cpOfExact_runeLen (s : Bytes) (c : Nat) (h : cpOfExact s = some c) : runeLen s = s.length := by
  rcases s with _ | ⟨b0, _ | ⟨b1, _ | ⟨b2, _ | ⟨b3, _ | ⟨b4, t⟩⟩⟩⟩⟩
  · simp [cpOfExact] at h
  · simp only [cpOfExact] at h
    split at h
    · rename_i hc; simp [runeLen, hc]
    · cases h
  · simp only [cpOfExact] at h
    split at h
    · rename_i hc
      simp only [Bool.and_eq_true, decide_eq_true_eq] at hc
      obtain ⟨⟨h1, h2⟩, h3⟩ := hc
      have a1 : ¬ b0 < 0x80 := u8_not_lt _ _ (UInt8.le_trans (by decide) h1)
      have a2 : ¬ b0 < 0xC2 := u8_not_lt _ _ h1
      simp [runeLen, a1, a2, h2, h3]
    · cases h
  · simp only [cpOfExact] at h
    rw [Option.ite_none_right_eq_some] at h
    obtain ⟨hc, _⟩ := h
    · simp only [Bool.and_eq_true, decide_eq_true_eq] at hc
      obtain ⟨⟨⟨⟨h1, h2⟩, h3⟩, h4⟩, h5⟩ := hc
      have a1 : ¬ b0 < 0x80 := u8_not_lt _ _ (UInt8.le_trans (by decide) h1)
      have a2 : ¬ b0 < 0xC2 := u8_not_lt _ _ (UInt8.le_trans (by decide) h1)
      have a3 : ¬ b0 ≤ 0xDF := u8_not_le_of_le _ _ _ h1 (by decide)
      simp [runeLen, a1, a2, a3, h2, h3, h4, h5]
  · simp only [cpOfExact] at h
    rw [Option.ite_none_right_eq_some] at h
    obtain ⟨hc, _⟩ := h
    · simp only [Bool.and_eq_true, decide_eq_true_eq] at hc
      obtain ⟨⟨⟨⟨⟨h1, h2⟩, h3⟩, h4⟩, h5⟩, h6⟩ := hc
      have a1 : ¬ b0 < 0x80 := u8_not_lt _ _ (UInt8.le_trans (by decide) h1)
      have a2 : ¬ b0 < 0xC2 := u8_not_lt _ _ (UInt8.le_trans (by decide) h1)
      have a3 : ¬ b0 ≤ 0xDF := u8_not_le_of_le _ _ _ h1 (by decide)
      have a4 : ¬ b0 ≤ 0xEF := u8_not_le_of_le _ _ _ h1 (by decide)
      simp [runeLen, a1, a2, a3, a4, h2, h3, h4, h5, h6]
  · simp [cpOfExact] at h

theorem cpOfExact_ne_nil (s : Bytes) (c : Nat) (h : cpOfExact s = some c) : s ≠ [] := by
  rintro rfl; simp [cpOfExact] at h

theorem cpOfExact_runeCount (s : Bytes) (c : Nat) (h : cpOfExact s = some c) : runeCount s = 1 := by
  obtain ⟨b, bs, rfl⟩ := List.exists_cons_of_ne_nil (cpOfExact_ne_nil s c h)
  rw [runeCount_cons, cpOfExact_runeLen _ c h]
  simp [runeCount_nil]

end Tab
