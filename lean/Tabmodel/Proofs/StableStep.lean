/-
  One callback invocation under `LogOnly`: what it preserves (`erase`), what it establishes
  (the measured value under a private key), and the generic "invariant of every allowed step"
  packaging (`StepInv`) that the traversal lemmas are stated with.
-/
import Tabmodel.Proofs.StableFrame
namespace Tab
namespace World

/-! ### `modCell` -/

theorem erase_modCell (w : World) (r c : Nat) (f : Cell → Cell) (hf : ∀ ce, (f ce).erase = ce.erase) :
    (w.modCell r c f).erase = w.erase := by
  unfold modCell modRow erase
  simp only
  congr 1
  apply map_modify_of_eq
  intro rw
  unfold Row.erase
  simp only
  congr 1
  cases rw.cells with
  | none => rfl
  | some cs =>
    simp only [Option.map_some]
    congr 1
    exact map_modify_of_eq Cell.erase f hf cs c

theorem row_modCell (w : World) (r c : Nat) (f : Cell → Cell) (r' : Nat) :
    (w.modCell r c f).row r' =
      if r = r' then { w.row r' with cells := (w.row r').cells.map (fun cs => cs.modify c f) } else w.row r' := by
  unfold modCell modRow row
  simp only [List.getD_eq_getElem?_getD, List.getElem?_modify]
  by_cases h : r = r'
  · subst h
    simp only [if_true]
    cases w.rows[r]? with
    | none => simp
    | some rw => simp
  · simp only [h, if_false]
    cases w.rows[r']? <;> simp

theorem cell?_modCell (w : World) (r c : Nat) (f : Cell → Cell) (r' c' : Nat) :
    (w.modCell r c f).cell? r' c' =
      if r = r' ∧ c = c' then (w.cell? r' c').map f else w.cell? r' c' := by
  unfold cell? rowCells
  rw [row_modCell]
  by_cases h : r = r'
  · subst h
    simp only [if_true, true_and]
    cases (w.row r).cells with
    | none => simp
    | some cs =>
      simp only [Option.map_some, Option.getD_some, List.getElem?_modify]
      by_cases hc : c = c'
      · subst hc; simp
      · simp [hc]
  · simp [h]

@[simp] theorem item_modCell (w : World) (r c : Nat) (f : Cell → Cell) (i : Nat) :
    (w.modCell r c f).item i = w.item i := rfl

/-! ### `setProp` on a cell, private key -/

theorem setProp_cell (w : World) (r c : Nat) (k : Key) (v : Option Val) :
    w.setProp (.cell r c) k v = w.modCell r c (fun ce => { ce with props := ce.props.set k v }) := rfl

theorem erase_setProp_priv (w : World) (r c : Nat) {k : Key} (hk : k.isPriv = true) (v : Val) :
    (w.setProp (.cell r c) k (some v)).erase = w.erase := by
  rw [setProp_cell]
  apply erase_modCell
  intro ce
  unfold Cell.erase
  simp only [Chain.user_set_priv ce.props hk v]

/-! ### what `mval` depends on -/

theorem mval_frame (dw : Measure) (w w' : World) (ce : Cell) (p : Chain) (h : ∀ i, w'.item i = w.item i) :
    mval dw w' { ce with props := p } = mval dw w ce := by
  funext k
  unfold mval
  cases k <;> simp only [h] <;> rfl

theorem mval_modCell (dw : Measure) (w : World) (r c : Nat) (f : Cell → Cell) (ce : Cell) (p : Chain) :
    mval dw (w.modCell r c f) { ce with props := p } = mval dw w ce :=
  mval_frame dw w (w.modCell r c f) ce p (fun _ => rfl)

theorem mval_erase (dw : Measure) (w : World) (ce : Cell) : mval dw w.erase ce.erase = mval dw w ce :=
  mval_frame dw w w.erase ce _ (fun _ => rfl)

/-- cell `(r, j)`, if it exists, carries the measured value under key `k` -/
def KeyMeas (dw : Measure) (k : Key) (r j : Nat) (w : World) : Prop :=
  ∀ ce, w.cell? r j = some ce → ce.props.get k = some (mval dw w ce k)

/-- storing the measured value of cell `(r', c')` under `k'`: keeps every `KeyMeas` -/
theorem keyMeas_setProp (dw : Measure) (w : World) (r' c' : Nat) (k' : Key) (v : Val)
    (hv : ∀ ce', w.cell? r' c' = some ce' → v = mval dw w ce' k') (k : Key) (r j : Nat)
    (h : KeyMeas dw k r j w) : KeyMeas dw k r j (w.setProp (.cell r' c') k' (some v)) := by
  intro ce hce
  rw [setProp_cell, cell?_modCell] at hce
  rw [setProp_cell]
  by_cases hsame : r' = r ∧ c' = j
  · obtain ⟨h1, h2⟩ := hsame
    subst h1; subst h2
    simp only [and_self, if_true] at hce
    cases hc0 : w.cell? r' c' with
    | none => rw [hc0] at hce; simp at hce
    | some ce0 =>
      rw [hc0] at hce
      simp only [Option.map_some, Option.some.injEq] at hce
      subst hce
      simp only
      rw [mval_modCell, Chain.get_set_some]
      by_cases hk : k' = k
      · subst hk; simp only [if_true]; rw [hv ce0 hc0]
      · simp only [hk, if_false]; exact h ce0 hc0
  · simp only [hsame, if_false] at hce
    have := h ce hce
    rw [this]
    have hm := mval_modCell dw w r' c' (fun ce => { ce with props := ce.props.set k' (some v) }) ce ce.props
    exact congrArg some (congrFun hm k).symm

/-- … and establishes it for that cell and key -/
theorem keyMeas_setProp_same (dw : Measure) (w : World) (r c : Nat) (k : Key) (v : Val)
    (hv : ∀ ce, w.cell? r c = some ce → v = mval dw w ce k) :
    KeyMeas dw k r c (w.setProp (.cell r c) k (some v)) := by
  intro ce hce
  rw [setProp_cell, cell?_modCell] at hce
  rw [setProp_cell]
  simp only [and_self, if_true] at hce
  cases hc0 : w.cell? r c with
  | none => rw [hc0] at hce; simp at hce
  | some ce0 =>
    rw [hc0] at hce
    simp only [Option.map_some, Option.some.injEq] at hce
    subst hce
    simp only
    rw [mval_modCell, Chain.get_set_some]
    simp only [if_true]; rw [hv ce0 hc0]

theorem cell?_setProp_same (w : World) (r c : Nat) (k : Key) (v : Option Val) (ce : Cell)
    (h : w.cell? r c = some ce) :
    (w.setProp (.cell r c) k v).cell? r c = some { ce with props := ce.props.set k v } := by
  rw [setProp_cell, cell?_modCell, h]; simp

/-! ### the two measuring callbacks -/

theorem invokeOne_dim_some (dw : Measure) (w : World) (r c : Nat) (tk : Taker) (ce : Cell)
    (h : w.cell? r c = some ce) :
    invokeOne dw w .dimSetter (.cell r c) tk =
      (w.setProp (.cell r c) .ttDims (some (mval dw w ce .ttDims))).setProp (.cell r c) .ttLines
        (some (mval dw w ce .ttLines)) := by
  unfold invokeOne; simp only [h]; rfl

theorem invokeOne_dim_none (dw : Measure) (w : World) (r c : Nat) (tk : Taker)
    (h : w.cell? r c = none) : invokeOne dw w .dimSetter (.cell r c) tk = w := by
  unfold invokeOne; simp only [h]

theorem invokeOne_wid_some (dw : Measure) (w : World) (r c : Nat) (tk : Taker) (ce : Cell)
    (h : w.cell? r c = some ce) :
    invokeOne dw w .widthSetter (.cell r c) tk =
      w.setProp (.cell r c) .mdWidth (some (mval dw w ce .mdWidth)) := by
  unfold invokeOne; simp only [h]; rfl

theorem invokeOne_wid_none (dw : Measure) (w : World) (r c : Nat) (tk : Taker)
    (h : w.cell? r c = none) : invokeOne dw w .widthSetter (.cell r c) tk = w := by
  unfold invokeOne; simp only [h]

/-- a property of worlds kept by every step a `LogOnly` render pass can take -/
structure StepInv (dw : Measure) (P : World → Prop) : Prop where
  log : ∀ w id tgt tk, P w → P (invokeOne dw w (.log id) tgt tk)
  dim : ∀ w r c tk, P w → P (invokeOne dw w .dimSetter (.cell r c) tk)
  wid : ∀ w r c tk, P w → P (invokeOne dw w .widthSetter (.cell r c) tk)

theorem StepInv.and {dw : Measure} {P Q : World → Prop} (hP : StepInv dw P) (hQ : StepInv dw Q) :
    StepInv dw (fun w => P w ∧ Q w) :=
  { log := fun w id tgt tk h => ⟨hP.log w id tgt tk h.1, hQ.log w id tgt tk h.2⟩
    dim := fun w r c tk h => ⟨hP.dim w r c tk h.1, hQ.dim w r c tk h.2⟩
    wid := fun w r c tk h => ⟨hP.wid w r c tk h.1, hQ.wid w r c tk h.2⟩ }

theorem StepInv.all {dw : Measure} {ι : Sort _} {P : ι → World → Prop} (hP : ∀ i, StepInv dw (P i)) :
    StepInv dw (fun w => ∀ i, P i w) :=
  { log := fun w id tgt tk h i => (hP i).log w id tgt tk (h i)
    dim := fun w r c tk h i => (hP i).dim w r c tk (h i)
    wid := fun w r c tk h i => (hP i).wid w r c tk (h i) }

theorem StepInv.imp {dw : Measure} {A : Prop} {P : World → Prop} (hP : StepInv dw P) :
    StepInv dw (fun w => A → P w) :=
  { log := fun w id tgt tk h a => hP.log w id tgt tk (h a)
    dim := fun w r c tk h a => hP.dim w r c tk (h a)
    wid := fun w r c tk h a => hP.wid w r c tk (h a) }

theorem erase_invokeOne_dim (dw : Measure) (w : World) (r c : Nat) (tk : Taker) :
    (invokeOne dw w .dimSetter (.cell r c) tk).erase = w.erase := by
  cases h : w.cell? r c with
  | none => rw [invokeOne_dim_none dw w r c tk h]
  | some ce =>
    rw [invokeOne_dim_some dw w r c tk ce h, erase_setProp_priv _ r c rfl, erase_setProp_priv _ r c rfl]

theorem erase_invokeOne_wid (dw : Measure) (w : World) (r c : Nat) (tk : Taker) :
    (invokeOne dw w .widthSetter (.cell r c) tk).erase = w.erase := by
  cases h : w.cell? r c with
  | none => rw [invokeOne_wid_none dw w r c tk h]
  | some ce => rw [invokeOne_wid_some dw w r c tk ce h, erase_setProp_priv _ r c rfl]

theorem stepInv_erase (dw : Measure) (e : World) : StepInv dw (fun w => w.erase = e) :=
  { log := fun _ _ _ _ h => h
    dim := fun w r c tk h => (erase_invokeOne_dim dw w r c tk).trans h
    wid := fun w r c tk h => (erase_invokeOne_wid dw w r c tk).trans h }

theorem keyMeas_invokeOne_dim (dw : Measure) (w : World) (r' c' : Nat) (tk : Taker) (k : Key) (r j : Nat)
    (h : KeyMeas dw k r j w) : KeyMeas dw k r j (invokeOne dw w .dimSetter (.cell r' c') tk) := by
  cases hc : w.cell? r' c' with
  | none => rw [invokeOne_dim_none dw w r' c' tk hc]; exact h
  | some ce =>
    rw [invokeOne_dim_some dw w r' c' tk ce hc]
    apply keyMeas_setProp
    · intro ce' hce'
      rw [cell?_setProp_same w r' c' _ _ ce hc] at hce'
      simp only [Option.some.injEq] at hce'
      subst hce'
      rw [setProp_cell, mval_modCell]
    · apply keyMeas_setProp
      · intro ce' hce'; rw [hc] at hce'; simp only [Option.some.injEq] at hce'; subst hce'; rfl
      · exact h

theorem keyMeas_invokeOne_wid (dw : Measure) (w : World) (r' c' : Nat) (tk : Taker) (k : Key) (r j : Nat)
    (h : KeyMeas dw k r j w) : KeyMeas dw k r j (invokeOne dw w .widthSetter (.cell r' c') tk) := by
  cases hc : w.cell? r' c' with
  | none => rw [invokeOne_wid_none dw w r' c' tk hc]; exact h
  | some ce =>
    rw [invokeOne_wid_some dw w r' c' tk ce hc]
    apply keyMeas_setProp
    · intro ce' hce'; rw [hc] at hce'; simp only [Option.some.injEq] at hce'; subst hce'; rfl
    · exact h

theorem stepInv_keyMeas (dw : Measure) (k : Key) (r j : Nat) : StepInv dw (KeyMeas dw k r j) :=
  { log := fun _ _ _ _ h => h
    dim := fun w r' c' tk h => keyMeas_invokeOne_dim dw w r' c' tk k r j h
    wid := fun w r' c' tk h => keyMeas_invokeOne_wid dw w r' c' tk k r j h }

/-- `dimSetter` on a cell establishes both of its keys there -/
theorem keyMeas_dim_est (dw : Measure) (w : World) (r c : Nat) (tk : Taker) :
    KeyMeas dw .ttDims r c (invokeOne dw w .dimSetter (.cell r c) tk) ∧
    KeyMeas dw .ttLines r c (invokeOne dw w .dimSetter (.cell r c) tk) := by
  cases hc : w.cell? r c with
  | none =>
    rw [invokeOne_dim_none dw w r c tk hc]
    constructor <;> (intro ce hce; rw [hc] at hce; simp at hce)
  | some ce =>
    rw [invokeOne_dim_some dw w r c tk ce hc]
    have hv2 : ∀ ce', (w.setProp (.cell r c) .ttDims (some (mval dw w ce .ttDims))).cell? r c = some ce' →
        mval dw w ce .ttLines = mval dw (w.setProp (.cell r c) .ttDims (some (mval dw w ce .ttDims))) ce' .ttLines := by
      intro ce' hce'
      rw [cell?_setProp_same w r c _ _ ce hc] at hce'
      simp only [Option.some.injEq] at hce'
      subst hce'
      rw [setProp_cell, mval_modCell]
    constructor
    · apply keyMeas_setProp _ _ _ _ _ _ hv2
      apply keyMeas_setProp_same
      intro ce' hce'; rw [hc] at hce'; simp only [Option.some.injEq] at hce'; subst hce'; rfl
    · exact keyMeas_setProp_same _ _ _ _ _ _ hv2

theorem keyMeas_wid_est (dw : Measure) (w : World) (r c : Nat) (tk : Taker) :
    KeyMeas dw .mdWidth r c (invokeOne dw w .widthSetter (.cell r c) tk) := by
  cases hc : w.cell? r c with
  | none =>
    rw [invokeOne_wid_none dw w r c tk hc]
    intro ce hce; rw [hc] at hce; simp at hce
  | some ce =>
    rw [invokeOne_wid_some dw w r c tk ce hc]
    apply keyMeas_setProp_same
    intro ce' hce'; rw [hc] at hce'; simp only [Option.some.injEq] at hce'; subst hce'; rfl

/-! ### a list of callbacks on one target -/

theorem invoke_nil (dw : Measure) (w : World) (tgt : Target) (tk : Taker) : invoke dw w [] tgt tk = w := rfl
theorem invoke_cons (dw : Measure) (w : World) (cb : Cb) (cbs : List Cb) (tgt : Target) (tk : Taker) :
    invoke dw w (cb :: cbs) tgt tk = invoke dw (invokeOne dw w cb tgt tk) cbs tgt tk := rfl

theorem invoke_self {dw : Measure} {P : World → Prop} (hP : StepInv dw P) (cbs : List Cb) (tgt : Target)
    (tk : Taker) (hc : cbs.all Cb.okSelf = true) (w : World) (h : P w) : P (invoke dw w cbs tgt tk) := by
  induction cbs generalizing w with
  | nil => exact h
  | cons cb rest ih =>
    rw [invoke_cons]
    simp only [List.all_cons, Bool.and_eq_true] at hc
    apply ih hc.2
    cases cb with
    | log id => exact hP.log w id tgt tk h
    | _ => simp [Cb.okSelf] at hc

theorem invoke_cell {dw : Measure} {P : World → Prop} (hP : StepInv dw P) (cbs : List Cb) (r c : Nat)
    (tk : Taker) (hc : cbs.all Cb.okCell = true) (w : World) (h : P w) :
    P (invoke dw w cbs (.cell r c) tk) := by
  induction cbs generalizing w with
  | nil => exact h
  | cons cb rest ih =>
    rw [invoke_cons]
    simp only [List.all_cons, Bool.and_eq_true] at hc
    apply ih hc.2
    cases cb with
    | log id => exact hP.log w id _ tk h
    | dimSetter => exact hP.dim w r c tk h
    | widthSetter => exact hP.wid w r c tk h
    | _ => simp [Cb.okCell] at hc

/-- a list containing `dimSetter` run on a cell leaves the two texttable keys measured -/
theorem invoke_dim_est (dw : Measure) (cbs : List Cb) (r c : Nat) (tk : Taker)
    (hc : cbs.all Cb.okCell = true) (w : World)
    (h : Cb.dimSetter ∈ cbs ∨ (KeyMeas dw .ttDims r c w ∧ KeyMeas dw .ttLines r c w)) :
    KeyMeas dw .ttDims r c (invoke dw w cbs (.cell r c) tk) ∧
    KeyMeas dw .ttLines r c (invoke dw w cbs (.cell r c) tk) := by
  induction cbs generalizing w with
  | nil =>
    cases h with
    | inl h => simp at h
    | inr h => exact h
  | cons cb rest ih =>
    rw [invoke_cons]
    have hc' := hc
    simp only [List.all_cons, Bool.and_eq_true] at hc
    apply ih hc.2
    by_cases hcb : cb = .dimSetter
    · subst hcb; exact Or.inr (keyMeas_dim_est dw w r c tk)
    · cases h with
      | inl h =>
        simp only [List.mem_cons] at h
        cases h with
        | inl h => exact absurd h.symm hcb
        | inr h => exact Or.inl h
      | inr h =>
        right
        have hS := (stepInv_keyMeas dw .ttDims r c).and (stepInv_keyMeas dw .ttLines r c)
        have := invoke_cell hS [cb] r c tk (by simp [hc.1]) w h
        exact this

theorem invoke_wid_est (dw : Measure) (cbs : List Cb) (r c : Nat) (tk : Taker)
    (hc : cbs.all Cb.okCell = true) (w : World)
    (h : Cb.widthSetter ∈ cbs ∨ KeyMeas dw .mdWidth r c w) :
    KeyMeas dw .mdWidth r c (invoke dw w cbs (.cell r c) tk) := by
  induction cbs generalizing w with
  | nil =>
    cases h with
    | inl h => simp at h
    | inr h => exact h
  | cons cb rest ih =>
    rw [invoke_cons]
    simp only [List.all_cons, Bool.and_eq_true] at hc
    apply ih hc.2
    by_cases hcb : cb = .widthSetter
    · subst hcb; exact Or.inr (keyMeas_wid_est dw w r c tk)
    · cases h with
      | inl h =>
        simp only [List.mem_cons] at h
        cases h with
        | inl h => exact absurd h.symm hcb
        | inr h => exact Or.inl h
      | inr h =>
        right
        exact invoke_cell (stepInv_keyMeas dw .mdWidth r c) [cb] r c tk (by simp [hc.1]) w h

end World
end Tab
