/- C11, history level — callbacks never change which callbacks are registered, nor the structure
   that decides which callbacks apply (`Same`): the lists an operation hands to `invoke` can all
   be read off the world in which the operation starts. -/
import Tabmodel.Proofs.C11hK
namespace Tab

/-- the callback sets of a column / table / row (with its cells') / world -/
def Column.cbv (c : Column) : CbSet × CbSet := (c.cellCbs, c.selfCbs)
def Table.cbv (tb : Table) : CbSet × CbSet × CbSet × List (CbSet × CbSet) :=
  (tb.selfCbs, tb.cellCbs, tb.rowCbs, tb.columns.map Column.cbv)
def Row.cbv (rw : Row) : CbSet × CbSet × Option (List CbSet) :=
  (rw.cellCbs, rw.selfCbs, rw.cells.map (·.map (·.cbs)))
def World.cbv (w : World) := (w.tables.map Table.cbv, w.rows.map Row.cbv)

namespace World

theorem cbv_modTable (w : World) (t : Nat) (f : Table → Table) (hf : ∀ x, (f x).cbv = x.cbv) :
    (w.modTable t f).cbv = w.cbv := by
  simp only [cbv, modTable, map_modify_inv Table.cbv f hf]

theorem cbv_modRow (w : World) (r : Nat) (f : Row → Row) (hf : ∀ x, (f x).cbv = x.cbv) :
    (w.modRow r f).cbv = w.cbv := by
  simp only [cbv, modRow, map_modify_inv Row.cbv f hf]

theorem cbv_setProp (w : World) (tgt : Target) (k : Key) (v : Option Val) :
    (setProp w tgt k v).cbv = w.cbv := by
  cases tgt with
  | table t => exact cbv_modTable _ _ _ (fun _ => rfl)
  | column t n =>
    refine cbv_modTable _ _ _ (fun x => ?_)
    refine congrArg (fun l => (x.selfCbs, x.cellCbs, x.rowCbs, l)) (map_modify_inv Column.cbv _ ?_ _ _)
    intro _; rfl
  | row r => exact cbv_modRow _ _ _ (fun _ => rfl)
  | cell r c =>
    refine cbv_modRow _ _ _ (fun x => ?_)
    simp only [Row.cbv]
    cases x.cells with
    | none => rfl
    | some cs =>
      refine congrArg (fun l => (x.cellCbs, x.selfCbs, some l)) (map_modify_inv Cell.cbs _ ?_ _ _)
      intro _; rfl
  | copy n => rfl

theorem cbv_addErrTo (w : World) (tk : Taker) (e : Nat) : (addErrTo w tk e).cbv = w.cbv := by
  cases tk with
  | drop => rfl
  | table t => exact cbv_modTable _ _ _ (fun _ => rfl)
  | rowOwn r =>
    refine cbv_modRow _ _ _ (fun x => ?_)
    split <;> rfl
  | rowLazy r =>
    simp only [addErrTo]
    split
    · exact cbv_modRow _ _ _ (fun _ => rfl)
    · exact cbv_modRow _ _ _ (fun _ => rfl)
    · exact cbv_modTable _ _ _ (fun _ => rfl)

theorem cbv_invokeOne (dw : Measure) (w : World) (cb : Cb) (tgt : Target) (tk : Taker) :
    (invokeOne dw w cb tgt tk).cbv = w.cbv := by
  unfold invokeOne
  split
  · rfl
  · rw [cbv_setProp]; rfl
  · rw [cbv_addErrTo]; rfl
  · split
    · split
      · simp only [cbv_setProp]
      · rfl
    · exact cbv_addErrTo _ _ _
  · split
    · split
      · simp only [cbv_setProp]
      · rfl
    · exact cbv_addErrTo _ _ _

theorem cbv_invoke (dw : Measure) (w : World) (cbs : List Cb) (tgt : Target) (tk : Taker) :
    (invoke dw w cbs tgt tk).cbv = w.cbv := by
  unfold invoke
  induction cbs generalizing w with
  | nil => rfl
  | cons cb cbs ih => simp only [List.foldl_cons]; rw [ih, cbv_invokeOne]

/-- same structure and same registered callbacks -/
def Same (w w' : World) : Prop := w'.shape = w.shape ∧ w'.cbv = w.cbv

theorem Same.refl (w : World) : Same w w := ⟨rfl, rfl⟩
theorem Same.trans {a b c : World} (h₁ : Same a b) (h₂ : Same b c) : Same a c :=
  ⟨h₂.1.trans h₁.1, h₂.2.trans h₁.2⟩

theorem same_invoke (dw : Measure) (w : World) (cbs : List Cb) (tgt : Target) (tk : Taker) :
    Same w (invoke dw w cbs tgt tk) := ⟨shape_invoke dw w cbs tgt tk, cbv_invoke dw w cbs tgt tk⟩

/-! ### reading through `Same` -/

theorem table_cbv {w w' : World} (h : Same w w') (t : Nat) : (w'.table t).cbv = (w.table t).cbv := by
  have e1 := getD_map_default Table.cbv w'.tables t {}
  have e2 := getD_map_default Table.cbv w.tables t {}
  have : w'.tables.map Table.cbv = w.tables.map Table.cbv := congrArg Prod.fst h.2
  unfold table
  rw [← e1, ← e2, this]

theorem row_cbv {w w' : World} (h : Same w w') (r : Nat) : (w'.row r).cbv = (w.row r).cbv := by
  have e1 := getD_map_default Row.cbv w'.rows r {}
  have e2 := getD_map_default Row.cbv w.rows r {}
  have : w'.rows.map Row.cbv = w.rows.map Row.cbv := congrArg Prod.snd h.2
  unfold row
  rw [← e1, ← e2, this]

theorem same_table_selfCbs {w w' : World} (h : Same w w') (t : Nat) :
    (w'.table t).selfCbs = (w.table t).selfCbs := congrArg (·.1) (table_cbv h t)
theorem same_table_cellCbs {w w' : World} (h : Same w w') (t : Nat) :
    (w'.table t).cellCbs = (w.table t).cellCbs := congrArg (·.2.1) (table_cbv h t)
theorem same_table_rowCbs {w w' : World} (h : Same w w') (t : Nat) :
    (w'.table t).rowCbs = (w.table t).rowCbs := congrArg (·.2.2.1) (table_cbv h t)
theorem same_row_cellCbs {w w' : World} (h : Same w w') (r : Nat) :
    (w'.row r).cellCbs = (w.row r).cellCbs := congrArg (·.1) (row_cbv h r)
theorem same_row_selfCbs {w w' : World} (h : Same w w') (r : Nat) :
    (w'.row r).selfCbs = (w.row r).selfCbs := congrArg (·.2.1) (row_cbv h r)

theorem same_column_cbv {w w' : World} (h : Same w w') (t n : Nat) :
    (w'.column? t n).map Column.cbv = (w.column? t n).map Column.cbv := by
  have : (w'.table t).columns.map Column.cbv = (w.table t).columns.map Column.cbv :=
    congrArg (·.2.2.2) (table_cbv h t)
  unfold column?
  rw [← List.getElem?_map, ← List.getElem?_map, this]

theorem same_column_cellCbs {w w' : World} (h : Same w w') (t n : Nat) (tm : Time) :
    ((w'.column? t n).map (·.cellCbs.at tm)).getD [] = ((w.column? t n).map (·.cellCbs.at tm)).getD [] := by
  have := same_column_cbv h t n
  cases h1 : w'.column? t n <;> cases h2 : w.column? t n <;> simp_all [Column.cbv]

theorem same_column_selfCbs {w w' : World} (h : Same w w') (t n : Nat) (tm : Time) :
    ((w'.column? t n).map (·.selfCbs.at tm)).getD [] = ((w.column? t n).map (·.selfCbs.at tm)).getD [] := by
  have := same_column_cbv h t n
  cases h1 : w'.column? t n <;> cases h2 : w.column? t n <;> simp_all [Column.cbv]

theorem same_colCellCbs {w w' : World} (h : Same w w') (tc : Option (Nat × Nat)) (tm : Time) :
    colCellCbs w' tc tm = colCellCbs w tc tm := by
  cases tc with
  | none => rfl
  | some p => obtain ⟨t, n⟩ := p; exact same_column_cellCbs h t n tm

theorem same_cell_cbs {w w' : World} (h : Same w w') (r i : Nat) :
    (w'.cell? r i).map (·.cbs) = (w.cell? r i).map (·.cbs) := by
  have : (w'.row r).cells.map (·.map Cell.cbs) = (w.row r).cells.map (·.map Cell.cbs) :=
    congrArg (·.2.2) (row_cbv h r)
  have key : ((w'.row r).cells.getD []).map Cell.cbs = ((w.row r).cells.getD []).map Cell.cbs := by
    cases h1 : (w'.row r).cells <;> cases h2 : (w.row r).cells <;> simp_all
  unfold cell? rowCells
  rw [← List.getElem?_map, ← List.getElem?_map, key]

theorem same_cell_render {w w' : World} (h : Same w w') (r i : Nat) :
    ((w'.cell? r i).map (·.cbs.at .render)).getD [] = ((w.cell? r i).map (·.cbs.at .render)).getD [] := by
  have := same_cell_cbs h r i
  cases h1 : w'.cell? r i <;> cases h2 : w.cell? r i <;> simp_all

/-- `columnOf` reads the shape only -/
def _root_.Tab.Shape.columnOf (s : Shape) (r c : Nat) : Option (Nat × Nat) :=
  match ((s.row r).cells.getD [])[c]? with
  | none => none
  | some g =>
    if g.1 < 1 then none else
    match g.2 with
    | none => none
    | some r' =>
      match (s.row r').inTable with
      | none => none
      | some t => if g.1 > (s.table t).nColumns then none else some (t, g.1)

theorem columnOf_shape (w : World) (r c : Nat) : columnOf w r c = w.shape.columnOf r c := by
  unfold columnOf Shape.columnOf cell? rowCells
  rw [shape_row_cells]
  have : (((w.row r).cells.map (·.map Cell.geo)).getD [])[c]? = (((w.row r).cells.getD [])[c]?).map Cell.geo := by
    cases (w.row r).cells <;> simp
  rw [this]
  cases ((w.row r).cells.getD [])[c]? with
  | none => rfl
  | some ce =>
    simp only [Option.map_some, Cell.geo]
    split
    · rfl
    · cases ce.inRow with
      | none => rfl
      | some r' =>
        simp only [shape_row_inTable]
        cases (w.row r').inTable with
        | none => rfl
        | some t => simp only [shape_table_nColumns]

theorem same_columnOf {w w' : World} (h : Same w w') (r c : Nat) : columnOf w' r c = columnOf w r c := by
  rw [columnOf_shape, columnOf_shape, h.1]

theorem same_rowCells_length {w w' : World} (h : Same w w') (r : Nat) :
    (w'.rowCells r).length = (w.rowCells r).length := by
  rw [← shape_width, ← shape_width, h.1]

theorem same_columns_length {w w' : World} (h : Same w w') (t : Nat) :
    (w'.table t).columns.length = (w.table t).columns.length := by
  rw [← shape_table_nColRecs, ← shape_table_nColRecs, h.1]

theorem same_rows {w w' : World} (h : Same w w') (t : Nat) : (w'.table t).rows = (w.table t).rows := by
  rw [← shape_table_rows, ← shape_table_rows, h.1]

theorem same_header {w w' : World} (h : Same w w') (t : Nat) :
    (w'.table t).header = (w.table t).header := by
  rw [← shape_table_header, ← shape_table_header, h.1]

end World
end Tab
