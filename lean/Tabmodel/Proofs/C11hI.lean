/- C11, history level — every valid step, and every valid history. -/
import Tabmodel.Proofs.C11hH
namespace Tab
open World

/-- what one valid step guarantees -/
structure StepOut (dw : Measure) (hs : List Nat) (w : World) (op : BuildOp) : Prop where
  he : HE (op.hdrStep w.rows.length hs) (applyOp dw w op)
  grow : Grow w (applyOp dw w op)
  law : ∀ e, SStep e op.dest (raisedBy dw w op e) w (applyOp dw w op) ∨
    ∃ t r, op.dest = some (.table t) ∧ AStep e t r (raisedBy dw w op e) w (applyOp dw w op)

theorem StepOut.of_stable {dw : Measure} {hs : List Nat} {w : World} {op : BuildOp}
    (h : HE hs w) (hstep : op.hdrStep w.rows.length hs = hs) (s : Stable w (applyOp dw w op))
    (law : ∀ e, SStep e op.dest (raisedBy dw w op e) w (applyOp dw w op)) : StepOut dw hs w op :=
  ⟨by rw [hstep]; exact h.of_stable s, Grow.of_stable s, fun e => Or.inl (law e)⟩

/-- the row an `addRow` may take is unattached -/
theorem unattached_of_ok {hs : List Nat} {w : World} (hinv : Inv w) (h : HE hs w) (t r : Nat)
    (hok : w.shape.ok (.addRow t r) = true) (hh : (BuildOp.addRow t r).hdrOk hs = true) :
    t < w.tables.length ∧ r < w.rows.length ∧ unattached w r := by
  simp only [Shape.ok, Bool.and_eq_true, Bool.not_eq_true', decide_eq_true_eq, beq_iff_eq,
    shape_tables_length, shape_rows_length, shape_row_inTable] at hok
  obtain ⟨⟨⟨ht, hr⟩, hfree⟩, _⟩ := hok
  refine ⟨ht, hr, ?_⟩
  rw [unattached_iff]
  intro t' hec
  rcases (h.ect r t' hec).2 with hm | hm
  · obtain ⟨i, hi⟩ := List.mem_iff_getElem?.mp hm
    have := (Inv.att hinv t' i r hi).1
    rw [hfree] at this; cases this
  · simp only [BuildOp.hdrOk, Bool.not_eq_true', List.contains_eq_mem, decide_eq_false_iff_not] at hh
    exact hh hm

theorem step_all (dw : Measure) {hs : List Nat} {w : World} (hinv : Inv w) (h : HE hs w)
    (op : BuildOp) (hok : w.shape.ok op = true) (hh : op.hdrOk hs = true) : StepOut dw hs w op := by
  cases op with
  | newTable =>
    exact ⟨he_newTable h, Grow.of_same (fun t => by simp only [applyOp, table_newTable]) (fun _ => rfl),
      fun e => Or.inl (sstep_newTable w e none)⟩
  | newRow =>
    exact ⟨he_newRow h {} rfl, grow_newRow w {} rfl, fun e => Or.inl (sstep_newRow w {} rfl e none)⟩
  | zeroRow =>
    exact ⟨he_newRow h { cells := none } rfl, grow_newRow w { cells := none } rfl,
      fun e => Or.inl (sstep_newRow w { cells := none } rfl e none)⟩
  | addHeaders t items =>
    have ht : t < w.tables.length := by simpa [Shape.ok] using hok
    refine ⟨he_addHeaders dw h t items ht, grow_addHeaders dw w t items ht, fun e => Or.inr ⟨t, w.rows.length, rfl, ?_⟩⟩
    have := (addHeaders_law dw e w t items ht).1
    rwa [addHeadersK_fst] at this
  | addRowItems t items =>
    have ht : t < w.tables.length := by simpa [Shape.ok] using hok
    have h1 := he_newRow h {} rfl
    have s2 := rowAddMany_stable dw w.rows.length items (w.newRow {}).1
    have h2 := h1.of_stable s2
    have hu1 : unattached (w.newRow {}).1 w.rows.length := by left; rw [row_newRow_self]
    have hu2 : unattached (rowAddMany dw w.rows.length items (w.newRow {}).1) w.rows.length := by
      rw [unattached_iff] at hu1 ⊢
      intro t' h'; exact hu1 t' ((s2.ecT _ t').mpr h')
    have ht2 : t < (rowAddMany dw w.rows.length items (w.newRow {}).1).tables.length := by
      rw [s2.tlen]; exact ht
    have hr2 : w.rows.length < (rowAddMany dw w.rows.length items (w.newRow {}).1).rows.length := by
      rw [s2.rlen]; simp [newRow]
    refine ⟨he_addRow dw h2 t w.rows.length ht2 hr2 hu2,
      ((grow_newRow w {} rfl).trans (Grow.of_stable s2)).trans
        (grow_addRow dw _ t w.rows.length ht2 hr2 hu2),
      fun e => Or.inr ⟨t, w.rows.length, rfl, ?_⟩⟩
    have := astep_addRowItems dw e w t items ht
    rwa [addRowK_fst, rowAddManyK_fst] at this
  | appendNewRow t =>
    have ht : t < w.tables.length := by simpa [Shape.ok] using hok
    have h1 := he_newRow h {} rfl
    have hu1 : unattached (w.newRow {}).1 w.rows.length := by left; rw [row_newRow_self]
    have hr1 : w.rows.length < (w.newRow {}).1.rows.length := by simp [newRow]
    refine ⟨he_addRow dw h1 t w.rows.length ht hr1 hu1,
      (grow_newRow w {} rfl).trans (grow_addRow dw _ t w.rows.length ht hr1 hu1),
      fun e => Or.inr ⟨t, w.rows.length, rfl, ?_⟩⟩
    have := astep_appendNewRow dw e w t ht
    rwa [addRowK_fst] at this
  | rowAdd r i =>
    have hr : r < w.rows.length := by
      simp only [Shape.ok, Bool.and_eq_true, decide_eq_true_eq, shape_rows_length] at hok; exact hok.1
    exact StepOut.of_stable h rfl (rowAddCell_stable dw w r _) (fun e => sstep_rowAddCell dw h r _ e hr)
  | rowAddCell r ce =>
    have hr : r < w.rows.length := by
      simp only [Shape.ok, Bool.and_eq_true, decide_eq_true_eq, shape_rows_length] at hok; exact hok.1
    exact StepOut.of_stable h rfl (rowAddCell_stable dw w r ce) (fun e => sstep_rowAddCell dw h r ce e hr)
  | addRow t r =>
    obtain ⟨ht, hr, hu⟩ := unattached_of_ok hinv h t r hok hh
    refine ⟨he_addRow dw h t r ht hr hu, grow_addRow dw w t r ht hr hu,
      fun e => Or.inr ⟨t, r, rfl, ?_⟩⟩
    have := (astep_addRowK dw e 0 w t r ht hr hu).2
    rwa [addRowK_fst, Nat.sub_zero] at this
  | addSeparator t =>
    have ht : t < w.tables.length := by simpa [Shape.ok] using hok
    exact ⟨he_addSeparator h t ht, grow_addSeparator w t,
      fun e => Or.inr ⟨t, w.rows.length, rfl, astep_addSeparator w t e⟩⟩
  | regCb o tm tg cb =>
    cases hreg : registerCb w o tm tg cb with
    | none =>
      have : applyOp dw w (.regCb o tm tg cb) = w := by simp only [applyOp, hreg]; rfl
      refine StepOut.of_stable h rfl (by rw [this]; exact Stable.refl w) (fun e => ?_)
      rw [this]
      exact SStep.same (fun _ => rfl) (fun _ => rfl) rfl
    | some w' =>
      have : applyOp dw w (.regCb o tm tg cb) = w' := by simp only [applyOp, hreg]; rfl
      obtain ⟨h1, h2, h3⟩ := registerCb_same w w' o tm tg cb hreg
      refine StepOut.of_stable h rfl (by rw [this]; exact registerCb_stable w w' o tm tg cb hreg) (fun e => ?_)
      rw [this]
      exact SStep.same h1 h2 (h3 e)
  | setProp o k v =>
    exact StepOut.of_stable h rfl (setProp_stable w o k v)
      (fun e => SStep.same (setProp_errs w o k v) (setProp_ec w o k v) (mass_setProp w o k v e))
  | addErr tk e' =>
    refine StepOut.of_stable h rfl (addErrTo_stable w tk e') (fun e => ?_)
    have hn : raisedBy dw w (.addErr tk e') e = (if live w tk ∧ e' = e then 1 else 0) := by
      simp only [raisedBy, applyOpK, Nat.zero_add]
    rw [dest_addErr, hn]
    exact sstep_addErr w tk e' e
  | setItems its =>
    exact StepOut.of_stable h rfl (stable_items w its)
      (fun e => SStep.same (fun _ => rfl) (fun _ => rfl) rfl)
  | updateCell r c =>
    refine StepOut.of_stable h rfl (by refine stable_modRow_same _ _ _ ?_; intro _; rfl) (fun e => ?_)
    refine SStep.same (fun _ => rfl) (fun r' => ?_) ?_
    · refine row_modRow_proj _ _ _ (·.ec) ?_ _; intro _; rfl
    · refine mass_modRow_same _ _ _ _ ?_; intro _; rfl
  | copyCell r c =>
    cases hc : w.cell? r c with
    | none =>
      have : applyOp dw w (.copyCell r c) = w := by simp only [applyOp, hc]
      refine StepOut.of_stable h rfl (by rw [this]; exact Stable.refl w) (fun e => ?_)
      rw [this]; exact SStep.same (fun _ => rfl) (fun _ => rfl) rfl
    | some ce =>
      have : applyOp dw w (.copyCell r c) = { w with copies := w.copies ++ [ce] } := by
        simp only [applyOp, hc]
      refine StepOut.of_stable h rfl (by rw [this]; exact stable_copies w _) (fun e => ?_)
      rw [this]; exact SStep.same (fun _ => rfl) (fun _ => rfl) rfl
  | render t =>
    exact StepOut.of_stable h rfl (invokeRenderCallbacks_stable dw w t) (fun e => sstep_render dw h t e)

/-- the total-mass law of a step -/
theorem StepOut.mass {dw : Measure} {hs : List Nat} {w : World} {op : BuildOp}
    (s : StepOut dw hs w op) (e : Nat) :
    mass (applyOp dw w op) e = mass w e + raisedBy dw w op e := by
  rcases s.law e with h | ⟨t, r, _, h⟩
  · exact h.ms
  · exact h.ms

theorem StepOut.led {dw : Measure} {hs : List Nat} {w : World} {op : BuildOp}
    (s : StepOut dw hs w op) (e : Nat) (L : List (Option Src × Nat)) (hl : Led e w L) :
    Led e (applyOp dw w op) (L ++ [(op.dest, raisedBy dw w op e)]) := by
  rcases s.law e with h | ⟨t, r, hd, h⟩
  · exact hl.sstep h
  · rw [hd]; exact hl.astep h

end Tab
