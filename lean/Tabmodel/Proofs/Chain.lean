/- Property chains as finite maps: lemmas about get / strip / set. -/
import Tabmodel.Model.Props
namespace Tab
namespace Chain

@[simp] theorem get_nil (k : Key) : get [] k = none := rfl
@[simp] theorem get_cons (k' : Key) (v : Val) (c : Chain) (k : Key) :
    get ((k', v) :: c) k = if k' = k then some v else get c k := rfl
@[simp] theorem strip_nil (k : Key) : strip [] k = [] := rfl
@[simp] theorem strip_cons (k' : Key) (v : Val) (c : Chain) (k : Key) :
    strip ((k', v) :: c) k = if k' = k then c else (k', v) :: strip c k := rfl

theorem get_strip_of_ne (c : Chain) {k k' : Key} (h : k' ≠ k) : (strip c k).get k' = c.get k' := by
  induction c with
  | nil => rfl
  | cons p c ih =>
    obtain ⟨a, v⟩ := p
    simp only [strip_cons, get_cons]
    by_cases ha : a = k
    · subst ha
      simp [Ne.symm h]
    · simp [ha, ih]

theorem get_eq_none_of_not_mem (c : Chain) (k : Key) (h : k ∉ c.keys) : c.get k = none := by
  induction c with
  | nil => rfl
  | cons p c ih =>
    obtain ⟨a, v⟩ := p
    simp only [keys, List.map_cons, List.mem_cons, not_or] at h
    simp only [get_cons, if_neg (Ne.symm h.1)]
    exact ih h.2

theorem keys_strip_subset (c : Chain) (k : Key) : ∀ x ∈ (strip c k).keys, x ∈ c.keys := by
  induction c with
  | nil => simp [keys]
  | cons p c ih =>
    obtain ⟨a, v⟩ := p
    simp only [strip_cons]
    by_cases ha : a = k
    · simp only [if_pos ha]; intro x hx; simp [keys] at hx ⊢; exact Or.inr hx
    · simp only [if_neg ha]
      intro x hx
      simp only [keys, List.map_cons, List.mem_cons] at hx ⊢
      rcases hx with hx | hx
      · exact Or.inl hx
      · exact Or.inr (ih x hx)

theorem nodup_strip (c : Chain) (k : Key) (h : c.keys.Nodup) : (strip c k).keys.Nodup := by
  induction c with
  | nil => simp [keys]
  | cons p c ih =>
    obtain ⟨a, v⟩ := p
    simp only [keys, List.map_cons, List.nodup_cons] at h
    simp only [strip_cons]
    by_cases ha : a = k
    · simp only [if_pos ha]; exact h.2
    · simp only [if_neg ha, keys, List.map_cons, List.nodup_cons]
      exact ⟨fun hm => h.1 (keys_strip_subset c k a hm), ih h.2⟩

theorem not_mem_strip (c : Chain) (k : Key) (h : c.keys.Nodup) : k ∉ (strip c k).keys := by
  induction c with
  | nil => simp [keys]
  | cons p c ih =>
    obtain ⟨a, v⟩ := p
    simp only [keys, List.map_cons, List.nodup_cons] at h
    simp only [strip_cons]
    by_cases ha : a = k
    · subst ha; simp only [if_pos rfl]; exact h.1
    · simp only [if_neg ha, keys, List.map_cons, List.mem_cons, not_or]
      exact ⟨Ne.symm ha, ih h.2⟩

theorem length_strip_le (c : Chain) (k : Key) : (strip c k).length ≤ c.length := by
  induction c with
  | nil => simp
  | cons p c ih =>
    obtain ⟨a, v⟩ := p
    simp only [strip_cons]
    split <;> simp <;> omega

theorem length_strip_of_mem (c : Chain) (k : Key) (h : k ∈ c.keys) : (strip c k).length + 1 = c.length := by
  induction c with
  | nil => simp [keys] at h
  | cons p c ih =>
    obtain ⟨a, v⟩ := p
    simp only [strip_cons]
    by_cases ha : a = k
    · simp [ha]
    · simp only [if_neg ha, List.length_cons]
      simp only [keys, List.map_cons, List.mem_cons] at h
      rcases h with h | h
      · exact absurd h.symm ha
      · have := ih h; omega

end Chain
end Tab
