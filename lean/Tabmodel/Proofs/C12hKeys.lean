/- C12h helper lemmas: the recorded state as a function of the history; counting links. -/
import Tabmodel.Proofs.C12hRun
import Tabmodel.Proofs.Chain
set_option linter.unusedSimpArgs false
namespace Tab
open World C13 C13x
namespace C12h

/-! ### the recorded state follows the reference machine -/

theorem after_snoc (ops : List BuildOp) (op : BuildOp) : PState.after (ops ++ [op]) = (PState.after ops).step op := by
  simp [PState.after, List.foldl_append]

theorem foldl_step_shape (ops : List BuildOp) (p : PState) :
    (ops.foldl PState.step p).shape = p.shape.runFrom ops := by
  induction ops generalizing p with
  | nil => rfl
  | cons op ops ih => simp only [List.foldl_cons, Shape.runFrom]; rw [ih, step_shape]; rfl

theorem after_shape (ops : List BuildOp) : (PState.after ops).shape = Shape.runFrom {} ops :=
  foldl_step_shape ops {}

/-! ### keys -/

theorem mem_keys_of_get {c : Chain} {k : Key} (h : c.get k ≠ none) : k ∈ c.keys := by
  apply Classical.byContradiction
  intro hn
  exact h (Chain.get_eq_none_of_not_mem c k hn)

theorem get_ne_none_of_mem {c : Chain} {k : Key} (h : k ∈ c.keys) : c.get k ≠ none := by
  induction c with
  | nil => simp [Chain.keys] at h
  | cons p c ih =>
    obtain ⟨a, v⟩ := p
    simp only [Chain.get_cons]
    split
    · simp
    · rename_i hne
      simp only [Chain.keys, List.map_cons, List.mem_cons] at h
      rcases h with h | h
      · exact absurd h.symm hne
      · exact ih h

theorem step_val_keys (p : PState) (op : BuildOp) (K : List Key) (h : ∀ o k, p.val o k ≠ none → k ∈ K) :
    ∀ o k, (p.step op).val o k ≠ none → k ∈ K ++ BuildOp.setKeys op := by
  intro o k hv
  rw [List.mem_append]
  by_cases hp : plain op = true
  · rw [step_plain p op hp] at hv; exact .inl (h o k hv)
  · cases op with
    | setProp o' k' v =>
      simp only [PState.step] at hv
      split at hv
      · simp only at hv
        split at hv
        · rename_i hh; exact .inr (by simp [BuildOp.setKeys, hh.2])
        · exact .inl (h o k hv)
      · exact .inl (h o k hv)
    | regCb o' tm tg cb => exact .inl (h o k hv)
    | copyCell r c =>
      simp only [PState.step] at hv
      split at hv
      · simp only at hv
        split at hv
        · exact .inl (h _ k hv)
        · exact .inl (h o k hv)
      · exact .inl (h o k hv)
    | rowAddCell r ce =>
      simp only [PState.step] at hv
      split at hv
      · split at hv
        · simp only at hv
          split at hv
          · exact .inr (mem_keys_of_get hv)
          · exact .inl (h o k hv)
        · exact .inl (h o k hv)
      · exact .inl (h o k hv)
    | _ => simp [plain] at hp

theorem foldl_val_keys (ops : List BuildOp) : ∀ (p : PState) (K : List Key), (∀ o k, p.val o k ≠ none → k ∈ K) →
    ∀ o k, (ops.foldl PState.step p).val o k ≠ none → k ∈ K ++ ops.flatMap BuildOp.setKeys := by
  induction ops with
  | nil => intro p K h o k hv; simpa using h o k hv
  | cons op ops ih =>
    intro p K h o k hv
    have := ih (p.step op) (K ++ BuildOp.setKeys op) (step_val_keys p op K h) o k hv
    simpa [List.flatMap_cons, List.append_assoc] using this

theorem lastSetOn_keys (ops : List BuildOp) (o : Target) (k : Key) (h : lastSetOn ops o k ≠ none) :
    k ∈ ops.flatMap BuildOp.setKeys := by
  have := foldl_val_keys ops {} [] (fun _ _ hv => absurd rfl hv) o k h
  simpa using this

/-! ### counting links -/

theorem filter_keys_sublist (c : Chain) (P : Key → Bool) :
    ((c.filter (fun l => P l.1)).map Prod.fst).Sublist c.keys :=
  (List.filter_sublist (l := c)).map Prod.fst

theorem filter_links_le (c : Chain) (P : Key → Bool) (ks : List Key) (hn : c.keys.Nodup)
    (h : ∀ k, P k = true → c.get k ≠ none → k ∈ ks) : (c.filter (fun l => P l.1)).length ≤ ks.length := by
  have h1 : ((c.filter (fun l => P l.1)).map Prod.fst).Nodup := List.Nodup.sublist (filter_keys_sublist c P) hn
  have h2 : (c.filter (fun l => P l.1)).map Prod.fst ⊆ ks := by
    intro k hk
    obtain ⟨l, hl, rfl⟩ := List.mem_map.mp hk
    have hl' := List.mem_filter.mp hl
    exact h l.1 hl'.2 (get_ne_none_of_mem (List.mem_map.mpr ⟨l, hl'.1, rfl⟩))
  have := List.Nodup.length_le_of_subset h1 h2
  simpa using this

/-! ### hypotheses -/

theorem writes_false_of_user {cb : Cb} {k : Key} (h1 : cb.isSetProp = false) (h2 : k.isUser = true) :
    cb.writes k = false := by
  cases cb <;> cases k <;> simp_all [Cb.isSetProp, Cb.writes, Key.isUser]

theorem cbSet_all_mono {s : CbSet} {p q : Cb → Bool} (h : ∀ cb, p cb = true → q cb = true) (hs : s.all p = true) :
    s.all q = true := by
  simp only [CbSet.all, Bool.and_eq_true, List.all_eq_true] at hs ⊢
  exact ⟨⟨⟨fun c hc => h c (hs.1.1.1 c hc), fun c hc => h c (hs.1.1.2 c hc)⟩, fun c hc => h c (hs.1.2 c hc)⟩,
    fun c hc => h c (hs.2 c hc)⟩

theorem cbsAll_mono {op : BuildOp} {p q : Cb → Bool} (h : ∀ cb, p cb = true → q cb = true)
    (hs : op.cbsAll p = true) : op.cbsAll q = true := by
  cases op <;> first | rfl | skip
  case regCb o tm tg cb => exact h cb hs
  case rowAddCell r ce => exact cbSet_all_mono h hs

theorem quietFor_of_noSetCbs {ops : List BuildOp} (h : NoSetCbs ops) {k : Key} (hk : k.isUser = true) :
    QuietFor k ops := by
  unfold NoSetCbs at h
  unfold QuietFor
  rw [List.all_eq_true] at h ⊢
  intro op hop
  refine cbsAll_mono ?_ (h op hop)
  intro cb hcb
  have : cb.isSetProp = false := by simpa using hcb
  simp [writes_false_of_user this hk]

end C12h
end Tab
