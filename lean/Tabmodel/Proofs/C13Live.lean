/- C13 helper lemmas: property chains (`get` after `set`) and reading a property back through the world. -/
import Tabmodel.Proofs.C13World
set_option linter.unusedSimpArgs false
namespace Tab
open World
namespace C13

section ChainLemmas

theorem chain_get_eq_none_of_not_mem (c : Chain) (k : Key) (h : k ∉ c.keys) : c.get k = none := by
  induction c with
  | nil => rfl
  | cons p c ih =>
    obtain ⟨k', v⟩ := p
    simp only [Chain.keys, List.map_cons, List.mem_cons, not_or] at h
    have hne : ¬ k' = k := fun e => h.1 e.symm
    simp only [Chain.get, hne, if_false]
    exact ih h.2

theorem chain_strip_keys_sublist (c : Chain) (k : Key) : (c.strip k).keys.Sublist c.keys := by
  induction c with
  | nil => exact List.Sublist.refl _
  | cons p c ih =>
    obtain ⟨k', v⟩ := p
    simp only [Chain.strip]
    split
    · exact List.sublist_cons_self _ _
    · exact List.Sublist.cons_cons _ ih

theorem chain_strip_keys_nodup (c : Chain) (k : Key) (h : c.keys.Nodup) : (c.strip k).keys.Nodup :=
  List.Nodup.sublist (chain_strip_keys_sublist c k) h

theorem chain_not_mem_strip_keys (c : Chain) (k : Key) (h : c.keys.Nodup) : k ∉ (c.strip k).keys := by
  induction c with
  | nil => simp [Chain.strip, Chain.keys]
  | cons p c ih =>
    obtain ⟨k', v⟩ := p
    simp only [Chain.keys, List.map_cons, List.nodup_cons] at h
    simp only [Chain.strip]
    split
    · rename_i hk; subst hk; exact h.1
    · rename_i hk
      simp only [Chain.keys, List.map_cons, List.mem_cons, not_or]
      exact ⟨fun e => hk e.symm, ih h.2⟩

/-- removing a key from a duplicate-free chain makes it unreadable -/
theorem chain_get_strip_self (c : Chain) (k : Key) (h : c.keys.Nodup) : (c.strip k).get k = none :=
  chain_get_eq_none_of_not_mem _ _ (chain_not_mem_strip_keys c k h)

theorem chain_get_strip_ne (c : Chain) {k k' : Key} (h : k ≠ k') : (c.strip k).get k' = c.get k' := by
  induction c with
  | nil => rfl
  | cons p c ih =>
    obtain ⟨k₀, v⟩ := p
    simp only [Chain.strip]
    split
    · rename_i hk; subst hk; simp [Chain.get, h]
    · simp only [Chain.get]; split <;> simp [ih]

theorem chain_get_set_some (c : Chain) (k : Key) (v : Val) : (c.set k (some v)).get k = some v := by
  simp [Chain.set, Chain.get]

theorem chain_get_set_none (c : Chain) (k : Key) (h : c.keys.Nodup) : (c.set k none).get k = none := by
  simp only [Chain.set]; exact chain_get_strip_self c k h

theorem chain_get_set_ne (c : Chain) {k k' : Key} (v : Option Val) (h : k ≠ k') : (c.set k v).get k' = c.get k' := by
  cases v with
  | none => exact chain_get_strip_ne c h
  | some v => simp [Chain.set, Chain.get, h, chain_get_strip_ne c h]

/-- `Chain.get` after `Chain.set` of the same key -/
theorem chain_get_set (c : Chain) (k : Key) (v : Option Val) (h : v.isSome = true ∨ c.keys.Nodup) :
    (c.set k v).get k = v := by
  cases v with
  | some v => exact chain_get_set_some c k v
  | none =>
    cases h with
    | inl h => simp at h
    | inr h => exact chain_get_set_none c k h

/-- the invariant the map behaviour relies on is preserved by `Chain.set` -/
theorem chain_set_keys_nodup (c : Chain) (k : Key) (v : Option Val) (h : c.keys.Nodup) : (c.set k v).keys.Nodup := by
  cases v with
  | none => exact chain_strip_keys_nodup c k h
  | some v =>
    simp only [Chain.set, Chain.keys, List.map_cons, List.nodup_cons]
    exact ⟨chain_not_mem_strip_keys c k h, chain_strip_keys_nodup c k h⟩

end ChainLemmas

/-! ### reading back through the world -/

theorem getProp_eq_chainOf (w : World) (o : Target) (k : Key) (h : w.hasObj o) :
    w.getProp o k = (w.chainOf o).get k := by
  cases o with
  | table t => rfl
  | row r => rfl
  | column t n =>
    have : ∃ c, w.column? t n = some c := ⟨_, List.getElem?_eq_getElem h.2⟩
    obtain ⟨c, hc⟩ := this
    simp [World.getProp, World.chainOf, hc]
  | cell r i =>
    obtain ⟨c, hc⟩ := Option.isSome_iff_exists.mp h
    simp [World.getProp, World.chainOf, hc]
  | copy n =>
    simp [World.getProp, World.chainOf, List.getElem?_eq_getElem h]

theorem has_setProp (w : World) (o : Target) (k : Key) (v : Option Val) (o' : Target) (h : w.hasObj o') :
    (w.setProp o k v).hasObj o' := by
  cases o' with
  | table t => cases o <;> simpa [World.hasObj, World.setProp, World.modColumn, World.modCell] using h
  | row r => cases o <;> simpa [World.hasObj, World.setProp, World.modColumn, World.modCell] using h
  | copy n => cases o <;> simpa [World.hasObj, World.setProp, World.modColumn, World.modCell] using h
  | column t n =>
    cases o with
    | table t' =>
      simp only [World.hasObj, World.setProp, tables_length_modTable, table_modTable]
      refine ⟨h.1, ?_⟩; split <;> exact h.2
    | column t' n' =>
      simp only [World.hasObj, World.setProp, World.modColumn, tables_length_modTable, table_modTable]
      refine ⟨h.1, ?_⟩
      split
      · simp only [List.length_modify]; exact h.2
      · exact h.2
    | row r => exact h
    | cell r c => exact h
    | copy m => exact h
  | cell r i =>
    cases o with
    | table t' => exact h
    | column t' n' => exact h
    | row r' =>
      simp only [World.hasObj, World.setProp]
      rw [show ∀ f : Row → Row, (∀ rw, (f rw).cells = rw.cells) → (w.modRow r' f).cell? r i = w.cell? r i from
        fun f hf => by simp only [World.cell?, World.rowCells, row_modRow]; split <;> simp [hf]]
      · exact h
      · intro _; rfl
    | cell r' c' =>
      simp only [World.hasObj, World.setProp, cell?_modCell]
      have h' : (w.cell? r i).isSome = true := h
      split
      · simpa using h'
      · exact h'
    | copy m => exact h

theorem chainOf_setProp_self (w : World) (o : Target) (k : Key) (v : Option Val) (h : w.hasObj o) :
    (w.setProp o k v).chainOf o = (w.chainOf o).set k v := by
  cases o with
  | table t =>
    simp only [World.chainOf, World.setProp, table_modTable_same (show t < w.tables.length from h)]
  | row r =>
    simp only [World.chainOf, World.setProp, row_modRow_same (show r < w.rows.length from h)]
  | column t n =>
    have : ∃ c, w.column? t n = some c := ⟨_, List.getElem?_eq_getElem h.2⟩
    obtain ⟨c, hc⟩ := this
    simp [World.chainOf, World.setProp, column?_modColumn, h.1, hc]
  | cell r i =>
    obtain ⟨c, hc⟩ := Option.isSome_iff_exists.mp h
    simp [World.chainOf, World.setProp, cell?_modCell, hc]
  | copy n =>
    simp [World.chainOf, World.setProp, List.getElem?_modify, List.getElem?_eq_getElem h]

theorem getProp_setProp_self (w : World) (o : Target) (k : Key) (v : Option Val) (h : w.hasObj o) :
    (w.setProp o k v).getProp o k = ((w.chainOf o).set k v).get k := by
  rw [getProp_eq_chainOf _ _ _ (has_setProp w o k v o h), chainOf_setProp_self w o k v h]

theorem getProp_setProp_other_key (w : World) (o : Target) {k k' : Key} (v : Option Val) (h : w.hasObj o)
    (hk : k ≠ k') : (w.setProp o k v).getProp o k' = w.getProp o k' := by
  rw [getProp_eq_chainOf _ _ _ (has_setProp w o k v o h), chainOf_setProp_self w o k v h,
    chain_get_set_ne _ v hk, getProp_eq_chainOf _ _ _ h]

end C13
end Tab
