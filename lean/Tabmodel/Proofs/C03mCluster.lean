/-
  C03m helpers, part 6: cluster-shaped measures.
-/
import Tabmodel.Proofs.C03mDefs
namespace Tab

/-- one rune per cluster, one cell per cluster: the rune count -/
theorem clusterWidth_one_eq (f : Nat) (s : Bytes) :
    clusterWidth (fun _ => 1) (fun _ => 1) f s = runeCountFuel f s := by
  induction f generalizing s with
  | zero => simp [clusterWidth, runeCountFuel]
  | succ n ih =>
    cases s with
    | nil => simp [clusterWidth, runeCountFuel]
    | cons b bs =>
      simp only [clusterWidth, runeCountFuel, dropRunes]
      rw [ih]

theorem runeCount_clusterShaped : ClusterShaped runeCount :=
  ⟨fun _ => 1, fun _ => 1, fun _ => Nat.le_refl 1, fun _ => Nat.le_succ 1,
    fun l => (clusterWidth_one_eq l.length l).symm⟩

theorem clusterShaped_le (dw : Measure) (h : ClusterShaped dw) (l : Bytes) : dw l ≤ 2 * runeCount l := by
  obtain ⟨cr, cw, hcr, hcw, hdw⟩ := h
  rw [hdw l]
  exact clusterWidth_le cr cw hcr hcw l.length l

end Tab
