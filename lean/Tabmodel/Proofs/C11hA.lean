/- C11, history level — the counting functions run the model (first components). -/
import Tabmodel.Proofs.C11hDefs
namespace Tab
namespace World

theorem invokeK_fst (dw : Measure) (e : Nat) (c : Cnt) (cbs : World → List Cb) (tgt : Target)
    (tk : World → Taker) : (invokeK dw e c cbs tgt tk).1 = invoke dw c.1 (cbs c.1) tgt (tk c.1) := rfl

theorem invokeK_snd (dw : Measure) (e : Nat) (c : Cnt) (cbs : World → List Cb) (tgt : Target)
    (tk : World → Taker) : (invokeK dw e c cbs tgt tk).2 = c.2 + raiseCount tgt e (cbs c.1) := rfl

theorem rowAddCell_none (dw : Measure) (w : World) (r : Nat) (ce : Cell)
    (hc : (w.row r).cells = none) : rowAddCell dw w r ce = addErrTo w (.rowLazy r) errNonCellRow := by
  simp only [rowAddCell, hc]

theorem rowAddCellK_fst (dw : Measure) (e : Nat) (c : Cnt) (r : Nat) (ce : Cell) :
    (rowAddCellK dw e c r ce).1 = rowAddCell dw c.1 r ce := by
  unfold rowAddCellK
  cases hc : (c.1.row r).cells with
  | none => simp only; rw [rowAddCell_none dw c.1 r ce hc]
  | some cs => simp only; rw [rowAddCell_some dw c.1 r ce cs hc]; rfl

theorem rowAddManyK_fst (dw : Measure) (e : Nat) (r : Nat) (is : List Nat) (c : Cnt) :
    (rowAddManyK dw e r is c).1 = rowAddMany dw r is c.1 := by
  induction is generalizing c with
  | nil => rfl
  | cons i is ih =>
    rw [rowAddManyK, rowAddMany, ih, rowAddCellK_fst]; rfl

theorem addTimeCellsK_fst (dw : Measure) (e : Nat) (t r : Nat) (tkf : World → Taker) (n i : Nat)
    (c : Cnt) : (addTimeCellsK dw e t r tkf n i c).1 = addTimeCells dw t r tkf n i c.1 := by
  induction n generalizing i c with
  | zero => rfl
  | succ n ih => rw [addTimeCellsK, addTimeCells, ih]; rfl

theorem addRowK_fst (dw : Measure) (e : Nat) (c : Cnt) (t r : Nat) :
    (addRowK dw e c t r).1 = addRow dw c.1 t r := by
  rw [addRow_eq]
  simp only [addRowK, addRowCbs, addTimeCellsK_fst, invokeK_fst]

theorem addHeadersK_fst (dw : Measure) (e : Nat) (c : Cnt) (t : Nat) (items : List Nat) :
    (addHeadersK dw e c t items).1 = addHeaders dw c.1 t items := by
  simp only [addHeadersK, addHeaders, addTimeCellsK_fst, invokeK_fst, rowAddManyK_fst, newRow]

theorem foldK_fst (dw : Measure) (e : Nat) (tgt : Target)
    (calls : List ((World → List Cb) × (World → Taker))) (c : Cnt) :
    (calls.foldl (fun c d => invokeK dw e c d.1 tgt d.2) c).1
      = calls.foldl (fun w d => invoke dw w (d.1 w) tgt (d.2 w)) c.1 := by
  induction calls generalizing c with
  | nil => rfl
  | cons d ds ih => simp only [List.foldl_cons, ih, invokeK_fst]

theorem renderCellsK_fst (dw : Measure) (e : Nat) (t r n i : Nat) (c : Cnt) :
    (renderCellsK dw e t r n i c).1 = renderCells dw t r n i c.1 := by
  induction n generalizing i c with
  | zero => rfl
  | succ n ih => rw [renderCellsK, renderCells_succ, ih, renderCellK, foldK_fst]

theorem renderRowK_fst (dw : Measure) (e : Nat) (t : Nat) (c : Cnt) (r : Nat) :
    (renderRowK dw e t c r).1 = renderRow dw t c.1 r := by
  simp only [renderRowK, renderRow, invokeK_fst, renderCellsK_fst]

theorem renderColumnsK_fst (dw : Measure) (e : Nat) (t : Nat) (tm : Time) (n i : Nat) (c : Cnt) :
    (renderColumnsK dw e t tm n i c).1 = renderColumns dw t tm n i c.1 := by
  induction n generalizing i c with
  | zero => rfl
  | succ n ih => rw [renderColumnsK, renderColumns]; exact ih _ _

theorem foldl_renderRowK_fst (dw : Measure) (e : Nat) (t : Nat) (rs : List Nat) (c : Cnt) :
    (rs.foldl (renderRowK dw e t) c).1 = rs.foldl (renderRow dw t) c.1 := by
  induction rs generalizing c with
  | nil => rfl
  | cons r rs ih => simp only [List.foldl_cons, ih, renderRowK_fst]

theorem renderHeaderK_fst (dw : Measure) (e : Nat) (t : Nat) (c : Cnt) :
    (renderHeaderK dw e t c).1 = renderHeader dw t c.1 := by
  cases h : (c.1.table t).header <;> simp [renderHeaderK, renderHeader, h, renderRowK_fst]

theorem renderK_fst (dw : Measure) (e : Nat) (c : Cnt) (t : Nat) :
    (renderK dw e c t).1 = invokeRenderCallbacks dw c.1 t := by
  rw [invokeRenderCallbacks_eq]
  simp only [renderK, invokeK_fst, renderColumnsK_fst, foldl_renderRowK_fst, renderHeaderK_fst]

end World
open World

theorem applyOpK_fst (dw : Measure) (e : Nat) (c : Cnt) (op : BuildOp) :
    (applyOpK dw e c op).1 = applyOp dw c.1 op := by
  cases op <;> simp only [applyOpK, applyOp]
  case addHeaders t items => exact addHeadersK_fst dw e c t items
  case addRowItems t items =>
    rw [addRowK_fst, rowAddManyK_fst]; rfl
  case appendNewRow t => rw [addRowK_fst]; rfl
  case rowAdd r i => exact rowAddCellK_fst dw e c r _
  case rowAddCell r ce => exact rowAddCellK_fst dw e c r ce
  case addRow t r => exact addRowK_fst dw e c t r
  case render t => exact renderK_fst dw e c t

end Tab
