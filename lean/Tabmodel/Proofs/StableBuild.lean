/-
  Content building commutes with wrapping: `X.Wrap` only appends to the table's cell/render
  callback list, which no add-time code path reads.  So a table made by `X.New()` and then
  filled is the core-made, equally filled table with the wrap applied afterwards.
-/
import Tabmodel.Proofs.StableWrap
namespace Tab
namespace World

/-- what `wrapEffect` does to the one table -/
def wrapG (cb : Cb) (tb : Table) : Table := { tb with cellCbs := tb.cellCbs.push .render cb }

theorem wrapEffect_eq (w : World) (k : WKind) (t : Nat) :
    w.wrapEffect k t = match wrapCb k with
      | some cb => w.modTable t (wrapG cb)
      | none => w := by
  cases k <;> rfl

theorem modify_comm {α : Type} (l : List α) (i j : Nat) (f g : α → α) (h : i = j → ∀ a, f (g a) = g (f a)) :
    (l.modify j g).modify i f = (l.modify i f).modify j g := by
  apply List.ext_getElem?
  intro n
  simp only [List.getElem?_modify]
  cases l[n]? with
  | none => rfl
  | some a =>
    by_cases hi : i = n <;> by_cases hj : j = n <;> simp [hi, hj]
    subst hi; subst hj
    exact h rfl a

theorem modTable_comm (w : World) (t t' : Nat) (f g : Table → Table) (h : ∀ tb, f (g tb) = g (f tb)) :
    (w.modTable t g).modTable t' f = (w.modTable t' f).modTable t g := by
  unfold modTable
  simp only
  rw [modify_comm w.tables t' t f g (fun _ => h)]

/-- the wrap as a function on worlds -/
def Wr (cb : Cb) (t : Nat) (w : World) : World := w.modTable t (wrapG cb)

section
variable (cb : Cb) (t : Nat)

@[simp] theorem Wr_row (w : World) (r : Nat) : (Wr cb t w).row r = w.row r := rfl
@[simp] theorem Wr_rowCells (w : World) (r : Nat) : (Wr cb t w).rowCells r = w.rowCells r := rfl
@[simp] theorem Wr_cell? (w : World) (r c : Nat) : (Wr cb t w).cell? r c = w.cell? r c := rfl
@[simp] theorem Wr_item (w : World) (i : Nat) : (Wr cb t w).item i = w.item i := rfl
@[simp] theorem Wr_rows (w : World) : (Wr cb t w).rows = w.rows := rfl
@[simp] theorem Wr_copies (w : World) : (Wr cb t w).copies = w.copies := rfl

theorem Wr_table (w : World) (t' : Nat) :
    (Wr cb t w).table t' = { w.table t' with cellCbs := ((Wr cb t w).table t').cellCbs } := by
  unfold Wr; rw [table_modTable']; split <;> rfl

theorem Wr_cellCbs_at (w : World) (t' : Nat) (tm : Time) (htm : tm ≠ .render) :
    ((Wr cb t w).table t').cellCbs.at tm = (w.table t').cellCbs.at tm := by
  unfold Wr; rw [table_modTable']
  split
  · cases tm <;> first | rfl | exact absurd rfl htm
  · rfl

theorem Wr_modTable (w : World) (t' : Nat) (f : Table → Table) (h : ∀ tb, f (wrapG cb tb) = wrapG cb (f tb)) :
    Wr cb t (w.modTable t' f) = (Wr cb t w).modTable t' f := by
  unfold Wr; exact (modTable_comm w t t' f (wrapG cb) h).symm

theorem Wr_modRow (w : World) (r : Nat) (f : Row → Row) : Wr cb t (w.modRow r f) = (Wr cb t w).modRow r f := rfl
theorem Wr_modCell (w : World) (r c : Nat) (f : Cell → Cell) : Wr cb t (w.modCell r c f) = (Wr cb t w).modCell r c f := rfl

theorem Wr_modColumn (w : World) (t' n : Nat) (f : Column → Column) :
    Wr cb t (w.modColumn t' n f) = (Wr cb t w).modColumn t' n f := by
  unfold modColumn; exact Wr_modTable cb t w t' _ (fun _ => rfl)

theorem Wr_setProp (w : World) (o : Target) (k : Key) (v : Option Val) :
    Wr cb t (w.setProp o k v) = (Wr cb t w).setProp o k v := by
  cases o with
  | table t' => exact Wr_modTable cb t w t' _ (fun _ => rfl)
  | column t' n => exact Wr_modColumn cb t w t' n _
  | row r => rfl
  | cell r c => rfl
  | copy n => rfl

theorem Wr_addErrTo (w : World) (tk : Taker) (e : Nat) : Wr cb t (w.addErrTo tk e) = (Wr cb t w).addErrTo tk e := by
  cases tk with
  | drop => rfl
  | table t' => exact Wr_modTable cb t w t' _ (fun _ => rfl)
  | rowOwn r => rfl
  | rowLazy r =>
    unfold addErrTo
    simp only [Wr_row]
    cases (w.row r).ec with
    | none => rfl
    | own es => rfl
    | table t' => exact Wr_modTable cb t w t' _ (fun _ => rfl)

theorem Wr_events (w : World) (e : List Event) : Wr cb t { w with events := e } = { Wr cb t w with events := e } := rfl

theorem Wr_invokeOne (dw : Measure) (w : World) (c : Cb) (tgt : Target) (tk : Taker) :
    Wr cb t (invokeOne dw w c tgt tk) = invokeOne dw (Wr cb t w) c tgt tk := by
  cases c with
  | log id => rfl
  | setProp id k v =>
    unfold invokeOne
    rw [Wr_setProp]; rfl
  | fail id e =>
    unfold invokeOne
    rw [Wr_addErrTo]; rfl
  | dimSetter =>
    cases tgt with
    | cell r c =>
      unfold invokeOne
      simp only [Wr_cell?, Wr_item]
      cases w.cell? r c with
      | none => rfl
      | some ce => simp only [Wr_setProp]
    | _ => exact Wr_addErrTo cb t w tk _
  | widthSetter =>
    cases tgt with
    | cell r c =>
      unfold invokeOne
      simp only [Wr_cell?]
      cases w.cell? r c with
      | none => rfl
      | some ce => simp only [Wr_setProp]
    | _ => exact Wr_addErrTo cb t w tk _

theorem Wr_invoke (dw : Measure) (cbs : List Cb) (w : World) (tgt : Target) (tk : Taker) :
    Wr cb t (invoke dw w cbs tgt tk) = invoke dw (Wr cb t w) cbs tgt tk := by
  induction cbs generalizing w with
  | nil => rfl
  | cons c cbs ih => rw [invoke_cons, invoke_cons, ih, Wr_invokeOne]

theorem resize_wrapG (tb : Table) (n : Nat) :
    resizeColumnsAtLeast (wrapG cb tb) n = wrapG cb (resizeColumnsAtLeast tb n) := by
  unfold resizeColumnsAtLeast
  show (if n ≤ tb.nColumns then _ else _) = _
  split <;> rfl

theorem Wr_resize (w : World) (t' n : Nat) :
    Wr cb t (w.modTable t' (fun tb => resizeColumnsAtLeast tb n)) =
      (Wr cb t w).modTable t' (fun tb => resizeColumnsAtLeast tb n) :=
  Wr_modTable cb t w t' _ (fun tb => resize_wrapG cb tb n)

theorem Wr_rowAddCell (dw : Measure) (w : World) (r : Nat) (ce : Cell) :
    Wr cb t (rowAddCell dw w r ce) = rowAddCell dw (Wr cb t w) r ce := by
  unfold rowAddCell
  simp only [Wr_row]
  cases (w.row r).cells with
  | none => exact Wr_addErrTo cb t w _ _
  | some cs =>
    simp only [Wr_invoke, ← Wr_modRow, Wr_row]
    cases ((w.modRow r fun rw => { rw with cells := some (cs ++ [{ ce with inRow := some r, columnNum := cs.length + 1 }]) }).row r).inTable with
    | none => rfl
    | some t' => simp only [Wr_resize]; rfl

theorem Wr_rowAdd (dw : Measure) (w : World) (r i : Nat) :
    Wr cb t (rowAdd dw w r i) = rowAdd dw (Wr cb t w) r i := by
  unfold rowAdd; rw [Wr_rowAddCell]; rfl

theorem Wr_rowAddMany (dw : Measure) (r : Nat) : ∀ (is : List Nat) (w : World),
    Wr cb t (rowAddMany dw r is w) = rowAddMany dw r is (Wr cb t w)
  | [], _ => rfl
  | i :: is, w => by
    unfold rowAddMany
    rw [Wr_rowAddMany dw r is, Wr_rowAdd]

theorem Wr_columnOf (w : World) (r c : Nat) : (Wr cb t w).columnOf r c = w.columnOf r c := by
  unfold columnOf
  simp only [Wr_cell?, Wr_row]
  cases w.cell? r c with
  | none => rfl
  | some ce =>
    simp only
    split
    · rfl
    · cases ce.inRow with
      | none => rfl
      | some r' =>
        simp only
        cases (w.row r').inTable with
        | none => rfl
        | some t' => simp only; rw [Wr_table cb t w t']

theorem Wr_colCellCbs (w : World) (tc : Option (Nat × Nat)) (tm : Time) :
    (Wr cb t w).colCellCbs tc tm = w.colCellCbs tc tm := by
  unfold colCellCbs
  cases tc with
  | none => rfl
  | some p =>
    obtain ⟨t', n⟩ := p
    simp only [column?]
    rw [Wr_table cb t w t']

theorem Wr_rowECTaker (w : World) (r : Nat) : (Wr cb t w).rowECTaker r = w.rowECTaker r := rfl

theorem Wr_rowErrors (w : World) (r : Nat) : (Wr cb t w).rowErrors r = w.rowErrors r := by
  unfold rowErrors
  simp only [Wr_row]
  cases (w.row r).ec with
  | table t' => simp only; rw [Wr_table cb t w t']
  | _ => rfl

theorem Wr_addTimeCells (dw : Measure) (t' r : Nat) (colTaker : World → Taker)
    (hct : ∀ w, colTaker (Wr cb t w) = colTaker w) : ∀ (n i : Nat) (w : World),
    Wr cb t (addTimeCells dw t' r colTaker n i w) = addTimeCells dw t' r colTaker n i (Wr cb t w)
  | 0, _, _ => rfl
  | n + 1, i, w => by
    unfold addTimeCells
    simp only
    rw [Wr_addTimeCells dw t' r colTaker hct n (i + 1), Wr_invoke, Wr_invoke]
    simp only [Wr_colCellCbs, Wr_columnOf, hct]
    rw [← Wr_invoke, hct, Wr_cellCbs_at cb t _ t' .add (by decide), Wr_invoke]

/-! pulling the wrap outward, one model step at a time -/

theorem Wr_table_rows (w : World) (t' : Nat) : ((Wr cb t w).table t').rows = (w.table t').rows := by
  rw [Wr_table cb t w t']
theorem Wr_table_rowCbs (w : World) (t' : Nat) : ((Wr cb t w).table t').rowCbs = (w.table t').rowCbs := by
  rw [Wr_table cb t w t']
theorem Wr_table_cellCbs_add (w : World) (t' : Nat) :
    ((Wr cb t w).table t').cellCbs.at .add = (w.table t').cellCbs.at .add :=
  Wr_cellCbs_at cb t w t' .add (by decide)

theorem pull_rows (w : World) (t' r : Nat) :
    (Wr cb t w).modTable t' (fun tb => { tb with rows := tb.rows ++ [r] }) =
      Wr cb t (w.modTable t' (fun tb => { tb with rows := tb.rows ++ [r] })) :=
  (Wr_modTable cb t w t' (fun tb => { tb with rows := tb.rows ++ [r] }) (fun _ => rfl)).symm
theorem pull_errs (w : World) (t' : Nat) (es : List Nat) :
    (Wr cb t w).modTable t' (fun tb => { tb with errs := tb.errs ++ es }) =
      Wr cb t (w.modTable t' (fun tb => { tb with errs := tb.errs ++ es })) :=
  (Wr_modTable cb t w t' (fun tb => { tb with errs := tb.errs ++ es }) (fun _ => rfl)).symm
theorem pull_header (w : World) (t' : Nat) (h : Option Nat) :
    (Wr cb t w).modTable t' (fun tb => { tb with header := h }) =
      Wr cb t (w.modTable t' (fun tb => { tb with header := h })) :=
  (Wr_modTable cb t w t' (fun tb => { tb with header := h }) (fun _ => rfl)).symm
theorem pull_resize (w : World) (t' n : Nat) :
    (Wr cb t w).modTable t' (fun tb => resizeColumnsAtLeast tb n) =
      Wr cb t (w.modTable t' (fun tb => resizeColumnsAtLeast tb n)) := (Wr_resize cb t w t' n).symm
theorem pull_modRow (w : World) (r : Nat) (f : Row → Row) : (Wr cb t w).modRow r f = Wr cb t (w.modRow r f) := rfl
theorem pull_invoke (dw : Measure) (cbs : List Cb) (w : World) (tgt : Target) (tk : Taker) :
    invoke dw (Wr cb t w) cbs tgt tk = Wr cb t (invoke dw w cbs tgt tk) := (Wr_invoke cb t dw cbs w tgt tk).symm
theorem pull_addTimeCells (dw : Measure) (t' r : Nat) (colTaker : World → Taker)
    (hct : ∀ w, colTaker (Wr cb t w) = colTaker w) (n i : Nat) (w : World) :
    addTimeCells dw t' r colTaker n i (Wr cb t w) = Wr cb t (addTimeCells dw t' r colTaker n i w) :=
  (Wr_addTimeCells cb t dw t' r colTaker hct n i w).symm
theorem pull_rowAddMany (dw : Measure) (r : Nat) (is : List Nat) (w : World) :
    rowAddMany dw r is (Wr cb t w) = Wr cb t (rowAddMany dw r is w) := (Wr_rowAddMany cb t dw r is w).symm

theorem Wr_addRow (dw : Measure) (w : World) (t' r : Nat) :
    addRow dw (Wr cb t w) t' r = Wr cb t (addRow dw w t' r) := by
  unfold addRow
  simp only [pull_rows, pull_errs, pull_resize, pull_modRow, pull_invoke, Wr_table_rows, Wr_table_rowCbs,
    Wr_row, Wr_rowCells, Wr_rowErrors]
  exact pull_addTimeCells cb t dw t' r _ (fun _ => rfl) _ 0 _

theorem pull_newRow (w : World) (rw : Row) :
    (Wr cb t w).newRow rw = (Wr cb t (w.newRow rw).1, (w.newRow rw).2) := rfl

theorem Wr_addSeparator (w : World) (t' : Nat) :
    addSeparator (Wr cb t w) t' = Wr cb t (addSeparator w t') := by
  unfold addSeparator
  rw [pull_newRow]
  simp only [pull_rows, pull_modRow, Wr_table_rows]

theorem Wr_addHeaders (dw : Measure) (w : World) (t' : Nat) (items : List Nat) :
    addHeaders dw (Wr cb t w) t' items = Wr cb t (addHeaders dw w t' items) := by
  unfold addHeaders
  simp only [pull_resize, pull_newRow, pull_rowAddMany, pull_header, pull_invoke, Wr_table_rowCbs, Wr_rowCells]
  exact pull_addTimeCells cb t dw t' _ (fun _ => Taker.table t') (fun _ => rfl) _ 0 _

theorem Wr_addRowItems (dw : Measure) (w : World) (t' : Nat) (items : List Nat) :
    addRowItems dw (Wr cb t w) t' items =
      (Wr cb t (addRowItems dw w t' items).1, (addRowItems dw w t' items).2) := by
  unfold addRowItems
  simp only [pull_newRow, pull_rowAddMany, Wr_addRow]

theorem Wr_appendNewRow (dw : Measure) (w : World) (t' : Nat) :
    appendNewRow dw (Wr cb t w) t' = (Wr cb t (appendNewRow dw w t').1, (appendNewRow dw w t').2) := by
  unfold appendNewRow
  simp only [pull_newRow, Wr_addRow]

theorem Wr_modTable' (w : World) (t' : Nat) (f : Table → Table)
    (h : t' = t → ∀ tb, f (wrapG cb tb) = wrapG cb (f tb)) :
    Wr cb t (w.modTable t' f) = (Wr cb t w).modTable t' f := by
  unfold Wr modTable
  simp only
  rw [modify_comm w.tables t' t f (wrapG cb) h]

theorem Wr_registerCb (w : World) (o : Target) (tm : Time) (tg : CbTarget) (c : Cb)
    (hok : (ContentOp.register o tm tg c).okFor t) :
    (registerCb (Wr cb t w) o tm tg c).getD (Wr cb t w) = Wr cb t ((registerCb w o tm tg c).getD w) := by
  cases o with
  | table t' =>
    cases tg with
    | itself => exact (Wr_modTable cb t w t' (fun tb => { tb with selfCbs := tb.selfCbs.push tm c }) (fun _ => rfl)).symm
    | row => exact (Wr_modTable cb t w t' (fun tb => { tb with rowCbs := tb.rowCbs.push tm c }) (fun _ => rfl)).symm
    | cell =>
      refine (Wr_modTable' cb t w t' (fun tb => { tb with cellCbs := tb.cellCbs.push tm c }) ?_).symm
      intro ht tb
      cases tm with
      | render => exact absurd ht (by simpa [ContentOp.okFor] using hok)
      | add => rfl
      | pre => rfl
      | post => rfl
  | column t' n =>
    cases tg with
    | itself => exact (Wr_modColumn cb t w t' n _).symm
    | cell => exact (Wr_modColumn cb t w t' n _).symm
    | row => rfl
  | row r => cases tg <;> rfl
  | cell r c' => cases tg <;> rfl
  | copy n => cases tg <;> rfl

theorem Wr_buildOp (dw : Measure) (w : World) (op : ContentOp) (hok : op.okFor t) :
    op.run dw (Wr cb t w) = Wr cb t (op.run dw w) := by
  cases op with
  | newRow => rfl
  | rowAdd r i => exact (Wr_rowAdd cb t dw w r i).symm
  | addRow t' r => exact Wr_addRow cb t dw w t' r
  | addHeaders t' is => exact Wr_addHeaders cb t dw w t' is
  | addRowItems t' is => exact congrArg Prod.fst (Wr_addRowItems cb t dw w t' is)
  | addSeparator t' => exact Wr_addSeparator cb t w t'
  | appendNewRow t' => exact congrArg Prod.fst (Wr_appendNewRow cb t dw w t')
  | setProp o k v => exact (Wr_setProp cb t w o k v).symm
  | addErr tk e => exact (Wr_addErrTo cb t w tk e).symm
  | register o tm tg c => exact Wr_registerCb cb t w o tm tg c hok

end

/-- content building commutes with a wrap -/
theorem wrapEffect_buildOps (dw : Measure) (k : WKind) (t : Nat) (ops : List ContentOp)
    (hops : ∀ op ∈ ops, op.okFor t) (w : World) :
    ops.foldl (ContentOp.run dw) (w.wrapEffect k t) = (ops.foldl (ContentOp.run dw) w).wrapEffect k t := by
  rw [wrapEffect_eq, wrapEffect_eq]
  cases wrapCb k with
  | none => rfl
  | some cb =>
    simp only
    induction ops generalizing w with
    | nil => rfl
    | cons op ops ih =>
      rw [List.foldl_cons, List.foldl_cons]
      have := Wr_buildOp cb t dw w op (hops op (List.mem_cons_self ..))
      unfold Wr at this
      rw [this]
      exact ih (fun op' hop' => hops op' (List.mem_cons_of_mem _ hop')) _

end World
end Tab
