/-
  C09h helper lemmas, part 2: the alignment values a renderer can read after its callbacks pass are
  values the HISTORY wrote.

  * `alignInDomain v`: `v` is unset or left / right / centre;
  * `ColsOK w`: every column record of every table of `w` (the defaults column 0 included) has such a
    value under `align`;
  * `KeepsC w w'`: `w'` keeps `w`'s callback sets, the one-link-per-key invariant, and — when every
    `.setProp _ align v` callback of `w` has `alignInDomain v` — `ColsOK`.  Proved for every operation that
    only invokes callbacks already in the world, through the traversal principles of C13x
    (`invokeRenderCallbacks_any`, `addRow_any`, `rowAddCell_any`, `addTimeCells_any`), exactly as
    `Proofs/C12hW.lean` does for its `TracksEs` — but with no writer table: two callbacks may share an id;
  * `colsOK_run`: hence `ColsOK (run dw ops)` for every history whose direct `align` sets on columns and
    whose `align`-writing callbacks carry such values;
  * `alignOK_post`: and `AlignOK` of the view after one more pass (`irc_colGet`, `get_foldl_applyChain`).
-/
import Tabmodel.Props.C12h
import Tabmodel.Proofs.E2EcbView
set_option linter.unusedSimpArgs false
set_option linter.unusedVariables false
namespace Tab
open World C13 C13x C12h

/-- an alignment property value within its documented domain: unset, or `alignSimple{1,2,3}` -/
def alignInDomain : Option Val → Bool
  | none => true
  | some (.align a) => a == 1 || a == 2 || a == 3
  | some _ => false

/-- a callback that, if it writes `align` at all, writes a value within the domain -/
def Cb.alignOK : Cb → Bool
  | .setProp _ .align v => alignInDomain v
  | _ => true

/-- an operation that, if it sets `align` on a column record directly, sets a value within the domain -/
def BuildOp.alignSetOK : BuildOp → Bool
  | .setProp (.column _ _) .align v => alignInDomain v
  | _ => true

/-- Every alignment value the history can bring to a column: the ones it sets directly on a column
    record (`setProp (.column t n) .align v`; `n = 0` is the defaults column) and the ones carried by
    `.setProp _ .align v` callbacks it registers ANYWHERE (or that ride on a ready-made cell value) are
    unset or left / right / centre.  `align` values put on tables, rows, cells or copies are not
    restricted (no renderer reads them). -/
def AlignValuesOK (ops : List BuildOp) : Prop :=
  ops.all (fun op => op.alignSetOK && op.cbsAll Cb.alignOK) = true

instance (ops : List BuildOp) : Decidable (AlignValuesOK ops) := by unfold AlignValuesOK; infer_instance

namespace C09h

/-- every column record of every table reads an alignment within the domain -/
def ColsOK (w : World) : Prop := ∀ t n, alignInDomain (w.getProp (.column t n) .align) = true

theorem alignInDomain_iff (v : Option Val) :
    alignInDomain v = true ↔ v = none ∨ ∃ a, (a = 1 ∨ a = 2 ∨ a = 3) ∧ v = some (.align a) := by
  cases v with
  | none => simp [alignInDomain]
  | some x =>
    cases x with
    | align a =>
      simp only [alignInDomain, Bool.or_eq_true, beq_iff_eq, reduceCtorEq, false_or, Option.some.injEq,
        Val.align.injEq]
      constructor
      · intro h; exact ⟨a, by omega, rfl⟩
      · rintro ⟨b, hb, rfl⟩; omega
    | _ => simp [alignInDomain]

/-! ### one invocation -/

/-- the invariant carried through a traversal -/
def JC (w' : World) (_ : List Event) : Prop := AllNodup w' ∧ ColsOK w'

theorem stepInv_cols (dw : Measure) {w0 : World} (hw : CbsAll Cb.alignOK w0) : StepInv dw w0 JC := by
  intro w' es cb tgt tk hsame hmem hJ
  obtain ⟨hn, hv⟩ := hJ
  obtain ⟨s, tm, hcb⟩ := hmem
  have hag := hw s tm cb hcb
  refine ⟨allNodup_invokeOne dw hn cb tgt tk, fun t n => ?_⟩
  cases hwr : cb.writes .align with
  | false =>
    rw [getProp_invokeOne_not_writes dw w' cb tgt tk .align hwr]
    exact hv t n
  | true =>
    cases cb with
    | setProp id k' v =>
      have hk : k' = .align := by simpa [Cb.writes] using hwr
      subst hk
      have hok : alignInDomain v = true := by simpa [Cb.alignOK] using hag
      by_cases e : tgt = .column t n
      · subst e
        by_cases hobj : w'.hasObj (.column t n)
        · rw [getProp_invokeOne_writer_self .align dw hn id v _ tk hobj]
          exact hok
        · rw [getProp_invokeOne_writer_noobj .align dw w' id .align v _ tk hobj]
          exact hv t n
      · rw [getProp_invokeOne_setProp_other dw w' id .align v tgt tk _ .align e]
        exact hv t n
    | log id => simp [Cb.writes] at hwr
    | fail id e => simp [Cb.writes] at hwr
    | dimSetter => simp [Cb.writes] at hwr
    | widthSetter => simp [Cb.writes] at hwr

/-! ### the relation and its composition -/

structure KeepsC (w w' : World) : Prop where
  cbs : ∀ s, w'.cbSet s = w.cbSet s
  nodup : AllNodup w → AllNodup w'
  ok : CbsAll Cb.alignOK w → AllNodup w → ColsOK w → ColsOK w'

theorem KeepsC.trans {a b c : World} (h1 : KeepsC a b) (h2 : KeepsC b c) : KeepsC a c :=
  ⟨fun s => (h2.cbs s).trans (h1.cbs s), fun h => h2.nodup (h1.nodup h),
   fun hw hn hc => h2.ok (cbsAll_of_cbs hw h1.cbs) (h1.nodup hn) (h1.ok hw hn hc)⟩

theorem keepsC_of_csame {w' w : World} (h : CSame w' w) : KeepsC w w' :=
  ⟨h.cbs, allNodup_csame h, fun _ _ hc t n => by
    rw [getProp_eq_get, h.chain, ← getProp_eq_get]; exact hc t n⟩

theorem keepsC_refl (w : World) : KeepsC w w := keepsC_of_csame (CSame.refl w)

theorem keepsC_of_any (dw : Measure) {w0 w' : World} {es : List Event}
    (h : ∀ J : World → List Event → Prop, StepInv dw w0 J → J w0 [] → C13x.Ext w0 J w' es) : KeepsC w0 w' := by
  have h1 := h (fun _ _ => True) (fun _ _ _ _ _ _ _ _ => trivial) trivial
  refine ⟨h1.same.cbs, fun hn => (h _ (stepInv_nodup dw w0) hn).inv, fun hw hn hc => ?_⟩
  exact ((h _ (stepInv_cols dw hw) ⟨hn, hc⟩).inv).2

/-! ### the operations that only invoke callbacks -/

variable (dw : Measure)

theorem keepsC_render (w : World) (t : Nat) : KeepsC w (invokeRenderCallbacks dw w t) :=
  keepsC_of_any dw (fun _ hJ h0 => invokeRenderCallbacks_any dw hJ t h0)

theorem keepsC_addRow (w : World) (t r : Nat) : KeepsC w (addRow dw w t r) :=
  (keepsC_of_csame (csame_addRowLinked w t r)).trans
    (keepsC_of_any dw (fun _ hJ h0 => addRow_any dw w t r hJ h0))

theorem keepsC_rowAddCell_linked {w : World} {r : Nat} {cs : List Cell} (hcs : (w.row r).cells = some cs)
    (ce : Cell) : KeepsC (rowAddLinked w r ce cs) (rowAddCell dw w r ce) :=
  keepsC_of_any dw (fun _ hJ h0 => rowAddCell_any dw w r ce cs hcs hJ h0)

theorem keepsC_rowAddCell_plain (w : World) (r : Nat) (ce : Cell) (h0 : ce.props = []) (h1 : ce.cbs = {}) :
    KeepsC w (rowAddCell dw w r ce) := by
  cases hcs : (w.row r).cells with
  | none => rw [rowAddCell_nil dw w r ce hcs]; exact keepsC_of_csame (csame_addErrTo w _ _)
  | some cs =>
    exact (keepsC_of_csame (csame_rowAddLinked_plain hcs ce h0 h1)).trans (keepsC_rowAddCell_linked dw hcs ce)

theorem keepsC_rowAddMany (r : Nat) : ∀ (is : List Nat) (w : World), KeepsC w (rowAddMany dw r is w) := by
  intro is
  induction is with
  | nil => intro w; exact keepsC_refl w
  | cons i is ih =>
    intro w
    have h1 : KeepsC w (rowAdd dw w r i) :=
      keepsC_rowAddCell_plain dw w r _ (newCell_props dw i _) (newCell_cbs dw i _)
    exact h1.trans (ih _)

theorem keepsC_addRowItems (w : World) (t : Nat) (items : List Nat) : KeepsC w (w.addRowItems dw t items).1 := by
  show KeepsC w (addRow dw (rowAddMany dw w.rows.length items (w.newRow {}).1) t w.rows.length)
  exact (keepsC_of_csame (csame_newRow_plain w)).trans
    ((keepsC_rowAddMany dw _ items _).trans (keepsC_addRow dw _ t w.rows.length))

theorem keepsC_appendNewRow (w : World) (t : Nat) : KeepsC w (w.appendNewRow dw t).1 := by
  show KeepsC w (addRow dw (w.newRow {}).1 t w.rows.length)
  exact (keepsC_of_csame (csame_newRow_plain w)).trans (keepsC_addRow dw _ t w.rows.length)

theorem keepsC_addHeaders (w : World) (t : Nat) (items : List Nat) : KeepsC w (addHeaders dw w t items) := by
  rw [addHeaders_eq]
  extract_lets w1 hr w2 w3 w4 w5
  have h1 : KeepsC w w1 := keepsC_of_csame (csame_resize w t _)
  have h2 : KeepsC w1 w2 := keepsC_of_csame (csame_newRow w1 { ec := .table t } rfl rfl rfl rfl)
  have h3 : KeepsC w2 w3 := keepsC_rowAddMany dw hr items w2
  have h4 : KeepsC w3 w4 :=
    keepsC_of_csame (csame_modTable_fields w3 t (fun tb => { tb with header := some hr }) (fun _ => rfl)
      (fun _ => rfl) (fun _ => rfl) (fun _ => rfl) (fun _ => rfl))
  have h5 : KeepsC w4 (addTimeCells dw t hr (fun _ => Taker.table t) (w5.rowCells hr).length 0 w5) := by
    refine keepsC_of_any dw (es := [] ++ userEvents (w4.cbsAt (.tableRow t) .add) (.row hr) ++
      addCellsExpectedAny w4 t hr 0 (w5.rowCells hr).length) (fun J hJ h0 => ?_)
    have e0 : C13x.Ext w4 J w4 [] := ⟨same_refl _, by simp, h0⟩
    have e1 : C13x.Ext w4 J w5 ([] ++ userEvents (w4.cbsAt (.tableRow t) .add) (.row hr)) :=
      ext_invoke_slot dw hJ e0 (.tableRow t) .add (fun _ => rfl) _ _
    exact addTimeCells_any dw hJ t hr (fun _ => Taker.table t) _ 0 _ _ e1
  exact h1.trans (h2.trans (h3.trans (h4.trans h5)))

theorem keepsC_applyOp (w : World) (op : BuildOp) (h : plain op = true) : KeepsC w (applyOp dw w op) := by
  cases op with
  | newTable => exact keepsC_of_csame (csame_newTable w)
  | addHeaders t items => exact keepsC_addHeaders dw w t items
  | addRowItems t items => exact keepsC_addRowItems dw w t items
  | newRow => exact keepsC_of_csame (csame_newRow w {} rfl rfl rfl rfl)
  | zeroRow => exact keepsC_of_csame (csame_newRow w { cells := none } rfl rfl rfl rfl)
  | appendNewRow t => exact keepsC_appendNewRow dw w t
  | rowAdd r i => exact keepsC_rowAddCell_plain dw w r _ (newCell_props dw i _) (newCell_cbs dw i _)
  | addRow t r => exact keepsC_addRow dw w t r
  | addSeparator t => exact keepsC_of_csame (csame_addSeparator w t)
  | addErr tk e => exact keepsC_of_csame (csame_addErrTo w tk e)
  | setItems its => exact keepsC_of_csame (csame_items w its)
  | updateCell r c => exact keepsC_of_csame (csame_updateCell dw w r c)
  | render t => exact keepsC_render dw w t
  | setProp o k v => simp [plain] at h
  | regCb o tm tg cb => simp [plain] at h
  | copyCell r c => simp [plain] at h
  | rowAddCell r ce => simp [plain] at h

/-! ### every operation -/

theorem colsOK_of_chain {w w' : World} (h : ∀ t n, w'.chainOf (.column t n) = w.chainOf (.column t n))
    (hc : ColsOK w) : ColsOK w' := by
  intro t n
  rw [getProp_eq_get, h, ← getProp_eq_get]
  exact hc t n

theorem colsOK_applyOp {w : World} (hw : CbsAll Cb.alignOK w) (hn : AllNodup w) (hc : ColsOK w) (op : BuildOp)
    (hset : op.alignSetOK = true) (hop : op.cbsAll Cb.alignOK = true) (hcell : op.cellOk = true) :
    ColsOK (applyOp dw w op) := by
  by_cases hp : plain op = true
  · exact (keepsC_applyOp dw w op hp).ok hw hn hc
  · cases op with
    | setProp o k v =>
      intro t n
      show alignInDomain ((w.setProp o k v).getProp (.column t n) .align) = true
      by_cases ho : w.hasObj o
      · by_cases e : o = .column t n ∧ k = .align
        · obtain ⟨rfl, rfl⟩ := e
          rw [getProp_setProp_self w _ .align v ho, chain_get_set _ .align v (.inr (hn _))]
          simpa [BuildOp.alignSetOK] using hset
        · have hne : o ≠ .column t n ∨ k ≠ .align := by
            by_cases e1 : o = .column t n
            · exact .inr (fun e2 => e ⟨e1, e2⟩)
            · exact .inl e1
          rw [getProp_setProp_frame w o k v _ .align hne]
          exact hc t n
      · rw [setProp_noobj w o k v ho]
        exact hc t n
    | regCb o tm tg cb =>
      simp only [applyOp]
      cases e : registerCb w o tm tg cb with
      | none => exact hc
      | some w' =>
        rw [Option.getD_some]
        exact colsOK_of_chain (fun t n => chainOf_registerCb e _) hc
    | copyCell r c =>
      simp only [applyOp]
      cases hce : w.cell? r c with
      | none => exact hc
      | some ce =>
        refine colsOK_of_chain (fun t n => ?_) hc
        rw [chainOf_copy, if_neg (by simp)]
    | rowAddCell r ce =>
      have hc' : ce.props.keys.Nodup := by simpa [BuildOp.cellOk] using hcell
      show ColsOK (rowAddCell dw w r ce)
      by_cases hr : r < w.rows.length
      · cases hcs : (w.row r).cells with
        | none =>
          rw [rowAddCell_nil dw w r ce hcs]
          exact (keepsC_of_csame (csame_addErrTo w (.rowLazy r) errNonCellRow)).ok hw hn hc
        | some cs =>
          refine (keepsC_rowAddCell_linked dw hcs ce).ok (cbsAll_rowAddLinked hw hr hcs ce hop)
            (allNodup_rowAddLinked hn hr hcs ce hc') ?_
          refine colsOK_of_chain (fun t n => ?_) hc
          rw [chainOf_rowAddLinked hr hcs, if_neg (by simp)]
      · have hd := row_default (Nat.le_of_not_lt hr)
        have hcs : (w.row r).cells = some [] := by rw [hd]
        have ht := keepsC_rowAddCell_linked dw hcs ce
        rw [rowAddLinked_noobj (Nat.le_of_not_lt hr)] at ht
        exact ht.ok hw hn hc
    | _ => simp [plain] at hp

/-! ### whole histories -/

theorem colsOK_empty : ColsOK {} := by
  intro t n
  rw [getProp_eq_get, chainOf_empty]
  rfl

theorem colsOK_runFrom : ∀ (ops : List BuildOp) (w : World), CbsAll Cb.alignOK w → AllNodup w → ColsOK w →
    ops.all (fun op => op.alignSetOK && op.cbsAll Cb.alignOK) = true → ops.all BuildOp.cellOk = true →
    CbsAll Cb.alignOK (runFrom dw w ops) ∧ AllNodup (runFrom dw w ops) ∧ ColsOK (runFrom dw w ops) := by
  intro ops
  induction ops with
  | nil => intro w hw hn hc _ _; exact ⟨hw, hn, hc⟩
  | cons op ops ih =>
    intro w hw hn hc hop hcell
    simp only [List.all_cons, Bool.and_eq_true] at hop hcell
    exact ih (applyOp dw w op) (cbsAll_applyOp dw hw op hop.1.2) (allNodup_applyOp dw hn op hcell.1)
      (colsOK_applyOp dw hw hn hc op hop.1.1 hop.1.2 hcell.1) hop.2 hcell.2

theorem colsOK_run (ops : List BuildOp) (hc : CellsOk ops) (ha : AlignValuesOK ops) :
    CbsAll Cb.alignOK (run dw ops) ∧ AllNodup (run dw ops) ∧ ColsOK (run dw ops) :=
  colsOK_runFrom dw ops {} (cbsAll_empty _) allNodup_empty colsOK_empty ha hc

/-! ### after one more pass -/

theorem lastWrite_ok (cbs : List Cb) (init : Option Val) (hi : alignInDomain init = true)
    (hcbs : ∀ cb ∈ cbs, cb.alignOK = true) : alignInDomain (lastWrite .align cbs init) = true := by
  induction cbs generalizing init with
  | nil => exact hi
  | cons cb cbs ih =>
    have hcb := hcbs cb (by simp)
    have ih' := fun i hi' => ih i hi' (fun c hc => hcbs c (by simp [hc]))
    cases cb with
    | setProp id k v =>
      simp only [lastWrite, List.foldl_cons]
      by_cases hk : k = .align
      · subst hk
        simp only [if_true]
        exact ih' v (by simpa [Cb.alignOK] using hcb)
      · simp only [hk, if_false]
        exact ih' init hi
    | log id => exact ih' init hi
    | fail id e => exact ih' init hi
    | dimSetter => exact ih' init hi
    | widthSetter => exact ih' init hi

/-- In a world all of whose `align`-writing callbacks and column records carry alignments within the
    domain, the view a renderer reads after its callbacks pass over ANY table `t` is `AlignOK`. -/
theorem alignOK_post {w : World} (hw : CbsAll Cb.alignOK w) (hn : AllNodup w) (hc : ColsOK w) (t : Nat) :
    AlignOK ((invokeRenderCallbacks dw w t).view t) := by
  intro i _
  have hcol : ((invokeRenderCallbacks dw w t).view t).colAlign =
      (w.table t).columns.map (fun c =>
        lastWrite .align (c.selfCbs.pre ++ c.selfCbs.post) (c.props.get .align)) := by
    show ((invokeRenderCallbacks dw w t).table t).columns.map (·.props.get .align) = _
    rw [E2Ecb.irc_colGet]
    apply List.map_congr_left
    intro c hcm
    obtain ⟨n, hlt, hget⟩ := List.getElem_of_mem hcm
    have hcol? : w.column? t n = some c := by
      unfold World.column?; rw [List.getElem?_eq_getElem hlt, hget]
    have := hn (.column t n)
    simp only [World.chainOf, hcol?, Option.map_some, Option.getD_some] at this
    exact E2Ecb.get_foldl_applyChain _ _ _ this
  rw [← alignInDomain_iff, hcol, List.getD_eq_getElem?_getD, List.getElem?_map]
  cases hci : (w.table t).columns[i]? with
  | none => rfl
  | some c =>
    simp only [Option.map_some, Option.getD_some]
    have hcol? : w.column? t i = some c := hci
    apply lastWrite_ok
    · have := hc t i
      simpa [World.getProp, hcol?] using this
    · intro cb hcb
      rcases List.mem_append.mp hcb with h | h
      · refine hw (.colSelf t i) .pre cb ?_
        simp only [World.cbsAt, World.cbSet, hcol?, Option.map_some, Option.getD_some]
        exact h
      · refine hw (.colSelf t i) .post cb ?_
        simp only [World.cbsAt, World.cbSet, hcol?, Option.map_some, Option.getD_some]
        exact h

end C09h
end Tab
