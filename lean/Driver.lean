/-
  Line-protocol interpreter over the L1 model.  One output line per input line.
  The Go harness (harness/) executes the same lines on the real library and prints
  its own observations in the same format; tools/ diffs the two streams.
-/
import Tabmodel
import Std.Data.HashMap
open Tab

structure St where
  w : World := {}
  dwT : Std.HashMap Bytes Nat := {}
  jsT : Std.HashMap Bytes Bytes := {}
  reg : Registry := []
  heavy : Decoration := {}
  wrappers : Array Wrapper := #[]
  ecs : Array (Option (List Nat)) := #[]   -- standalone containers: none = nil pointer
  handles : Array (Nat × Nat) := #[]       -- column handles taken earlier: (table, n)
  dwMiss : Array Bytes := #[]

/-! ### encoding helpers (must match harness/proto.go) -/

def hexDigit (n : Nat) : Char := if n < 10 then Char.ofNat (48 + n) else Char.ofNat (87 + n)

def hexOf (b : Bytes) : String :=
  if b.isEmpty then "-" else
  String.ofList (b.flatMap (fun x => [hexDigit (x.toNat / 16), hexDigit (x.toNat % 16)]))

def hexVal (c : Char) : Option Nat :=
  if '0' ≤ c ∧ c ≤ '9' then some (c.toNat - 48)
  else if 'a' ≤ c ∧ c ≤ 'f' then some (c.toNat - 87)
  else none

partial def unhexL : List Char → Bytes → Option Bytes
  | [], acc => some acc.reverse
  | a :: b :: rest, acc =>
    match hexVal a, hexVal b with
    | some x, some y => unhexL rest ((x * 16 + y).toUInt8 :: acc)
    | _, _ => none
  | _, _ => none

def unhex (s : String) : Bytes :=
  if s == "-" then [] else (unhexL s.toList []).getD []

def optHex (s : String) : Option Bytes := if s == "~" then none else some (unhex s)
def optInt (s : String) : Option Int := if s == "~" then none else s.toInt?
def natOf (s : String) : Nat := s.toNat?.getD 0
def intOf (s : String) : Int := s.toInt?.getD 0
def listOf (s : String) : List String := if s == "[]" then [] else s.splitOn ","
def joinC (l : List String) : String := if l.isEmpty then "[]" else ",".intercalate l
def idOf (s : String) : Nat := natOf (s.drop 1).toString   -- "T3" → 3
def b01 (b : Bool) : String := if b then "1" else "0"

/-- key=value arguments -/
def kv (args : List String) (k : String) : String :=
  match args.find? (fun a => a.startsWith (k ++ "=")) with
  | some a => (a.drop (k.length + 1)).toString
  | none => "~"

def parseKey (s : String) : Key :=
  if s == "align" then .align
  else if s == "skip" then .skipable
  else .user (natOf (s.drop 1).toString)

def parseVal (s : String) : Option Val :=
  if s == "nil" then none
  else if s.startsWith "P" then some (.user (9000000 + natOf (s.drop 1).toString))   -- a pointer value, by identity
  else if s.startsWith "u" then some (.user (natOf (s.drop 1).toString))
  else if s.startsWith "a" then some (.align (natOf (s.drop 1).toString))
  else if s == "b1" then some (.bool true)
  else if s == "b0" then some (.bool false)
  else none

def showVal : Option Val → String
  | none => "nil"
  | some (.user n) => if n ≥ 9000000 then s!"P{n - 9000000}" else s!"u{n}"
  | some (.align a) => s!"a{a}"
  | some (.bool b) => if b then "b1" else "b0"
  | some (.dims w h) => s!"dims{w}x{h}"
  | some (.lws l) => s!"lws{l.length}"
  | some (.mdw w) => s!"mdw{w}"

def parseOwner (hs : Array (Nat × Nat)) (s : String) : Target :=
  match s.splitOn ":" with
  | ["h", k] => let (t, n) := hs.getD (natOf k) (0, 0); .column t n
  | ["t", n] => .table (natOf n)
  | ["c", t, n] => .column (natOf t) (natOf n)
  | ["r", n] => .row (natOf n)
  | ["x", r, c] => .cell (natOf r) (natOf c)
  | ["y", n] => .copy (natOf n)
  | _ => .table 0

def showTarget : Target → String
  | .table t => s!"t:{t}"
  | .column t n => s!"c:{t}:{n}"
  | .row r => s!"r:{r}"
  | .cell r c => s!"x:{r}:{c}"
  | .copy n => s!"y:{n}"

def parseTime (s : String) : Option Time :=
  if s == "add" then some .add else if s == "pre" then some .pre
  else if s == "render" then some .render else if s == "post" then some .post else none

def parseCbTarget (s : String) : World.CbTarget :=
  if s == "cell" then .cell else if s == "row" then .row else .itself

def parseCb (s : String) : Cb :=
  match s.splitOn ":" with
  | ["log", id] => .log (natOf id)
  | ["set", id, k, v] => .setProp (natOf id) (parseKey k) (parseVal v)
  | ["fail", id, e] => .fail (natOf id) (natOf e)
  | _ => .log 0

def showClass : ErrClass → String
  | .noColumns => "no-columns" | .noHeaders => "no-headers" | .tooFewHeaders => "too-few-headers"
  | .emptyHeader => "empty-header" | .dupHeader => "dup-header" | .nonboolSkipable => "nonbool-skipable"
  | .structural => "structural" | .marshal => "marshal" | .noDecoration => "no-decoration"
  | .writer => "writer" | .badAlign => "bad-align"

def showStop : Option Stop → String
  | none => "ok"
  | some (.err e) => "err:" ++ showClass e
  | some (.panic _) => "PANIC"

def parseDecor (s : String) : Decoration :=
  let f := (s.splitOn ",").toArray
  let g (i : Nat) : Bytes := unhex (f.getD i "-")
  { horizontal := g 0, vertical := g 1, crossPiece := g 2, topDown := g 3, vBorder := g 4,
    hOuter := g 5, hRule := g 6, vHeader := g 7, vBodyBorder := g 8, vBodyInner := g 9,
    topLeft := g 10, topRight := g 11, bottomLeft := g 12, bottomRight := g 13,
    leftBodyRule := g 14, rightBodyRule := g 15, hTopDown := g 16, bTopDown := g 17,
    bBottomUp := g 18, hBCross := g 19, hBLeft := g 20, hBRight := g 21,
    isBoxless := f.getD 22 "0" == "1" }

def showDecor (d : Decoration) : String :=
  ",".intercalate ([d.horizontal, d.vertical, d.crossPiece, d.topDown, d.vBorder, d.hOuter, d.hRule,
    d.vHeader, d.vBodyBorder, d.vBodyInner, d.topLeft, d.topRight, d.bottomLeft, d.bottomRight,
    d.leftBodyRule, d.rightBodyRule, d.hTopDown, d.bTopDown, d.bBottomUp, d.hBCross, d.hBLeft,
    d.hBRight].map hexOf ++ [b01 d.isBoxless])

def parseKind (s : String) : WKind :=
  if s == "csv" then .csv else if s == "json" then .json else if s == "html" then .html
  else if s == "markdown" then .markdown else .text

def showKind : WKind → String
  | .csv => "csv" | .json => "json" | .html => "html" | .markdown => "markdown" | .text => "text"

def fmtKind : Format → WKind × Decoration
  | .csv => (.csv, {}) | .html => (.html, {}) | .markdown => (.markdown, {}) | .json => (.json, {})
  | .text d => (.text, d)

def parseErrs (s : String) : List (Option Nat) :=
  (listOf s).map (fun e => if e == "nil" then none else some (natOf e))

def showNats (l : List Nat) : String := joinC (l.map toString)

/-! ### state helpers -/

def St.ext (st : St) : Ext :=
  { dw := fun b =>
      -- printable ASCII measures one cell per byte (the harness does not send those); any other
      -- miss is made visible, never silently 0
      if b.all (fun c => 0x20 ≤ c && c ≤ 0x7e) then b.length
      else (st.dwT.get? b).getD (b.length + 1000000)
    js := fun b => (st.jsT.get? b).getD (bytesOfString "JSMISS") }

def parseItem (args : List String) : Item :=
  let kind : ItemKind :=
    match kv args "kind" with
    | "nil" => .nil
    | "str" => .str (unhex (kv args "s"))
    | "rune" => .rune (intOf (kv args "r"))
    | "cell" => .cell (unhex (kv args "cs")) (intOf (kv args "cw")) (intOf (kv args "ch")) (kv args "ce" == "1")
    | _ => .other
  { kind := kind, mString := optHex (kv args "S"), mGoString := optHex (kv args "G"),
    mError := optHex (kv args "E"), fmtV := unhex (kv args "V"), mHeight := optInt (kv args "H"),
    mWidth := optInt (kv args "W"), json := optHex (kv args "J") }

def setItem (w : World) (i : Nat) (it : Item) : World :=
  if i < w.items.length then { w with items := w.items.set i it }
  else { w with items := w.items ++ List.replicate (i - w.items.length) default ++ [it] }

def showCellLoc (w : World) (ce : Cell) : String :=
  let (r, c) := w.cellLocation ce
  s!"{r}.{c}"

def obsTable (w : World) (t : Nat) : String :=
  let tb := w.table t
  let nrows := tb.rows.length
  let ncols := tb.nColumns
  let cols := (List.range (ncols + 3)).map (fun (i : Nat) =>
    let n : Int := Int.ofNat i - 1
    s!"{n}:{b01 (w.hasColumn t n)}")
  let cellat := (List.range (nrows + 2)).flatMap (fun (r : Nat) => (List.range (ncols + 2)).map (fun (c : Nat) =>
    match w.cellAt t (Int.ofNat r) (Int.ofNat c) with
    | none => s!"{r}.{c}:x"
    | some (rid, ci) =>
      match w.cell? rid ci with
      | some ce => s!"{r}.{c}:R{rid}:{ci}@{showCellLoc w ce}"
      | none => s!"{r}.{c}:?"))
  let hdr := match tb.header with | some h => s!"R{h}" | none => "~"
  s!"nrows={nrows} ncols={ncols} hdr={hdr} rows={joinC (tb.rows.map (fun r => s!"R{r}"))} errs={showNats tb.errs} cols={joinC cols} cellat={joinC cellat}"

def obsRow (w : World) (r : Nat) : String :=
  let rw := w.row r
  let cells := match rw.cells with | none => "~" | some cs => toString cs.length
  let cs := w.rowCells r
  s!"rownum={rw.rowNum} sep={b01 rw.isSep} cells={cells} errs={showNats (w.rowErrors r)} texts={joinC (cs.map (fun c => hexOf c.str))} empty={joinC (cs.map (fun c => b01 c.empty))} locs={joinC (cs.map (showCellLoc w))}"

def obsCell (ce : Cell) : String :=
  s!"text={hexOf ce.str} empty={b01 ce.empty} h={ce.hgt} w={ce.termWidth} lines={joinC (ce.lines.map hexOf)}"

def parseScript (s : String) : Script :=
  match s.splitOn ":" with
  | ["from", k] => fun i => if i ≥ natOf k then some 0 else none
  | ["only", k] => fun i => if i = natOf k then some 0 else none
  | ["partial", k, n] => fun i => if i = natOf k then some (natOf n) else none
  | _ => fun _ => none

def rechunk (b : Bytes) : List Nat → List Bytes
  | [] => []
  | n :: ns => b.take n :: rechunk (b.drop n) ns

def addErrList (w : World) (tk : Taker) (es : List (Option Nat)) : World :=
  es.foldl (fun w e => match e with | some e => w.addErrTo tk e | none => w) w

/-! ### the interpreter -/

def step (st : St) (line : String) : St × String :=
  let toks := (line.splitOn " ").filter (· ≠ "")
  let x := st.ext
  match toks with
  | ["case", n] => ({ st with w := {}, wrappers := #[], ecs := #[], handles := #[] }, s!"case {n}")
  | ["colhandle", t, n] =>
    if st.w.hasColumn (idOf t) (intOf n) then
      ({ st with handles := st.handles.push (idOf t, natOf n) }, s!"H{st.handles.size}")
    else (st, "nil")
  | ["dw", h, n] => ({ st with dwT := st.dwT.insert (unhex h) (natOf n) }, "ok")
  | ["js", h, j] => ({ st with jsT := st.jsT.insert (unhex h) (unhex j) }, "ok")
  | "item" :: i :: args => ({ st with w := setItem st.w (idOf i) (parseItem args) }, "ok")
  | ["newtable"] => let (w, t) := st.w.newTable; ({ st with w := w }, s!"T{t}")
  | ["wrap", k, t] =>
    let kind := parseKind k
    let core := idOf t
    let wr : Wrapper := { kind := kind, core := core, decor := if kind = .text then st.heavy else {} }
    ({ st with w := st.w.wrapEffect kind core, wrappers := st.wrappers.push wr }, s!"W{st.wrappers.size}")
  | ["newvia", k] =>
    let kind := parseKind k
    let (w, t) := st.w.newTable
    let wr : Wrapper := { kind := kind, core := t, decor := if kind = .text then st.heavy else {} }
    ({ st with w := w.wrapEffect kind t, wrappers := st.wrappers.push wr }, s!"T{t} W{st.wrappers.size}")
  | ["autonew", style] =>
    let (w, t) := st.w.newTable
    let (kind, decor) := fmtKind (resolveStyle st.reg st.heavy (unhex style))
    let wr : Wrapper := { kind := kind, core := t, decor := decor }
    ({ st with w := w.wrapEffect kind t, wrappers := st.wrappers.push wr }, s!"T{t} W{st.wrappers.size} kind={showKind kind}")
  | ["prender", k, ref] =>
    let kind := parseKind k
    let core := if ref.startsWith "T" then idOf ref else (st.wrappers.getD (idOf ref) { kind := .csv, core := 0 }).core
    let wr : Wrapper := { kind := kind, core := core, decor := if kind = .text then st.heavy else {} }
    -- X.Render(ref) and X.RenderTo(ref, buf): two fresh wrappers, two passes
    let w1 := st.w.wrapEffect kind core
    let (w2, m1) := w1.renderTo x wr
    let (s1, stop1) := World.renderString m1
    -- a panic in the first call ends the Go-side operation: the second call never runs
    if (match stop1 with | some (.panic _) => true | _ => false) then ({ st with w := w2 }, "PANIC") else
    let w3 := w2.wrapEffect kind core
    let (w4, m2) := w3.renderTo x wr
    let stop2 := match m2.res with | .ok _ => none | .error s => some s
    ({ st with w := w4 }, s!"res={showStop stop1} str={hexOf s1} res2={showStop stop2} out2={hexOf m2.output}")
  | ["autorender", ref, style] =>
    let core := if ref.startsWith "T" then idOf ref else (st.wrappers.getD (idOf ref) { kind := .csv, core := 0 }).core
    let (kind, decor) := fmtKind (resolveStyle st.reg st.heavy (unhex style))
    let wr : Wrapper := { kind := kind, core := core, decor := decor }
    let w1 := st.w.wrapEffect kind core
    let (w2, m1) := w1.renderTo x wr
    let (s1, stop1) := World.renderString m1
    -- a panic in the first call ends the Go-side operation: the second call never runs
    if (match stop1 with | some (.panic _) => true | _ => false) then ({ st with w := w2 }, "PANIC") else
    let w3 := w2.wrapEffect kind core
    let (w4, m2) := w3.renderTo x wr
    let stop2 := match m2.res with | .ok _ => none | .error s => some s
    ({ st with w := w4 }, s!"res={showStop stop1} str={hexOf s1} res2={showStop stop2} out2={hexOf m2.output}")
  | ["populate", d] => (st, showDecor (parseDecor d).populate)
  | ["leftdomain", _] => (st, "leftdomain")
  | ["leftdomain"] => (st, "leftdomain")   -- marker: the case has set an input outside every property's domain
  | ["scribblerows", _] => (st, "ok")   -- the caller overwrites the slice AllRows() returned: the table keeps its own
  | ["lenobs", h] =>
    let s := unhex h
    (st, s!"lines={joinC ((lines s).map hexOf)} lb={longestLine List.length s} lr={longestLine runeCount s} lc={longestLine x.dw s} sb={s.length} sr={runeCount s}")
  | ["rewrap", k, wv] =>   -- X.Wrap(wrapper)
    let kind := parseKind k
    let core := (st.wrappers.getD (idOf wv) { kind := .csv, core := 0 }).core
    let wr : Wrapper := { kind := kind, core := core, decor := if kind = .text then st.heavy else {} }
    ({ st with w := st.w.wrapEffect kind core, wrappers := st.wrappers.push wr }, s!"W{st.wrappers.size}")
  | ["setdecor", wv, d] =>
    ({ st with wrappers := st.wrappers.modify (idOf wv) (fun wr => { wr with decor := parseDecor d }) }, "ok")
  | ["setdecornamed", wv, n] =>
    let err := ((st.wrappers.getD (idOf wv) { kind := .text, core := 0 }).setDecorationNamed st.reg (unhex n)).2
    ({ st with wrappers := st.wrappers.modify (idOf wv) (fun wr => (wr.setDecorationNamed st.reg (unhex n)).1) },
      if err.isSome then "unknown" else "ok")
  | "sethtml" :: wv :: args =>
    let rc : Option (Nat → Bytes) :=
      match kv args "rc" with
      | "~" => none
      | s =>
        let tbl := (listOf s).map (fun e => match e.splitOn ":" with
          | [n, h] => (natOf n, unhex h) | _ => (0, []))
        some (fun n => ((tbl.find? (fun p => p.1 == n)).map (·.2)).getD [])
    let cfg : HtmlCfg := { id := unhex (kv args "id"), cls := unhex (kv args "cls"), caption := unhex (kv args "cap"), rowClass := rc }
    ({ st with wrappers := st.wrappers.modify (idOf wv) (fun wr => { wr with html := cfg }) }, "ok")
  | ["addheaders", t, is] =>
    let hr := st.w.rows.length
    ({ st with w := st.w.addHeaders x.dw (idOf t) ((listOf is).map idOf) }, s!"R{hr}")
  | ["addrowitems", t, is] =>
    let (w, r) := st.w.addRowItems x.dw (idOf t) ((listOf is).map idOf)
    ({ st with w := w }, s!"R{r}")
  | ["newrow"] => let (w, r) := st.w.newRow {}; ({ st with w := w }, s!"R{r}")
  | ["zerorow"] => let (w, r) := st.w.newRow { cells := none }; ({ st with w := w }, s!"R{r}")
  | ["appendnewrow", t] => let (w, r) := st.w.appendNewRow x.dw (idOf t); ({ st with w := w }, s!"R{r}")
  | ["rowadd", r, i] => ({ st with w := st.w.rowAdd x.dw (idOf r) (idOf i) }, "ok")
  | ["rowaddcopy", r, y] =>
    match st.w.copies[idOf y]? with
    | some ce => ({ st with w := st.w.rowAddCell x.dw (idOf r) ce }, "ok")
    | none => (st, "nocopy")
  | ["addrow", t, r] => ({ st with w := st.w.addRow x.dw (idOf t) (idOf r) }, "ok")
  | ["addsep", t] =>
    let r := st.w.rows.length
    ({ st with w := st.w.addSeparator (idOf t) }, s!"R{r}")
  | ["rowadderr", r, e] => ({ st with w := addErrList st.w (.rowLazy (idOf r)) (parseErrs e) }, "ok")
  | ["rowadderrlist", r, es] => ({ st with w := addErrList st.w (.rowLazy (idOf r)) (parseErrs es) }, "ok")
  | ["tadderr", t, e] => ({ st with w := addErrList st.w (.table (idOf t)) (parseErrs e) }, "ok")
  | ["tadderrlist", t, es] => ({ st with w := addErrList st.w (.table (idOf t)) (parseErrs es) }, "ok")
  | ["obs", t] => (st, obsTable st.w (idOf t))
  | ["rowobs", r] => (st, obsRow st.w (idOf r))
  | ["cellobs", r, c] =>
    match st.w.cell? (idOf r) (natOf c) with
    | some ce => (st, obsCell ce)
    | none => (st, "nocell")
  | ["probe", i] =>   -- NewCell(item) observed, world unchanged
    (st, obsCell (newCell x.dw (idOf i) (st.w.item (idOf i))))
  | ["update", r, c] =>
    ({ st with w := st.w.modCell (idOf r) (natOf c) (fun ce => ce.update x.dw (st.w.item ce.item)) }, "ok")
  | ["copycell", r, c] =>
    match st.w.cell? (idOf r) (natOf c) with
    | some ce => ({ st with w := { st.w with copies := st.w.copies ++ [ce] } }, s!"Y{st.w.copies.length}")
    | none => (st, "nocell")
  | ["copyobs", y] =>
    match st.w.copies[idOf y]? with
    | some ce => (st, obsCell ce)
    | none => (st, "nocopy")
  | ["copyupdate", y] =>
    ({ st with w := { st.w with copies := st.w.copies.modify (idOf y) (fun ce => ce.update x.dw (st.w.item ce.item)) } }, "ok")
  | ["setprop", o, k, v] => ({ st with w := st.w.setProp (parseOwner st.handles o) (parseKey k) (parseVal v) }, "ok")
  | ["getprop", o, k] => (st, showVal (st.w.getProp (parseOwner st.handles o) (parseKey k)))
  | ["chainlen", o, bound] =>
    -- "does this owner store at most `bound` links?": the number itself is read on the Go side from debug
    -- output whose format is nobody's contract, so only the bound is compared
    let n := st.w.chainLen (parseOwner st.handles o)
    (st, if n ≤ natOf bound then "le" else "gt")
  | ["regcb", _t, o, tm, tg, cb] =>
    match parseTime tm with
    | none => (st, "refused")
    | some tm =>
      match st.w.registerCb (parseOwner st.handles o) tm (parseCbTarget tg) (parseCb cb) with
      | some w => ({ st with w := w }, "ok")
      | none => (st, "refused")
  | ["invoke", t] => ({ st with w := st.w.invokeRenderCallbacks x.dw (idOf t) }, "ok")
  | ["events"] =>
    ({ st with w := { st.w with events := [] } },
      joinC (st.w.events.map (fun e => s!"{e.cb}@{showTarget e.tgt}")))
  | ["render", wv] =>
    match st.wrappers[idOf wv]? with
    | none => (st, "nowrapper")
    | some wr =>
      let (w, m) := st.w.renderTo x wr
      let stop := match m.res with | .ok _ => none | .error s => some s
      let extra := if wr.kind = .html then
          " rc=" ++ (match wr.html.rowClass with
            | none => "[]"
            | some _ => joinC ((rowClassCalls (w.view wr.core)).map toString))
        else ""
      ({ st with w := w }, s!"res={showStop stop} out={hexOf m.output}{extra}")
  | ["renderstr", wv] =>
    match st.wrappers[idOf wv]? with
    | none => (st, "nowrapper")
    | some wr =>
      let (w, m) := st.w.renderTo x wr
      let (s, stop) := World.renderString m
      ({ st with w := w }, s!"res={showStop stop} str={hexOf s}")
  | ["frender", wv, script, cs] =>
    match st.wrappers[idOf wv]? with
    | none => (st, "nowrapper")
    | some wr =>
      let (w, m) := st.w.renderTo x wr
      let lens := (listOf ((cs.drop 3).toString)).map natOf
      -- the chunk boundaries are the library's (trusted input); what they cover must be exactly the model's bytes
      if lens.sum ≠ m.output.length then ({ st with w := w }, s!"short-cs model={m.output.length} cs={lens.sum}") else
      let m' : Emit Unit := ⟨rechunk m.output lens, m.res⟩
      let (r, stop) := runEmit (parseScript script) m'
      ({ st with w := w }, s!"res={showStop stop} calls={r.calls} acc={hexOf r.accepted}")
  | ["register", n, d] => ({ st with reg := st.reg.register (unhex n) (parseDecor d) }, "ok")
  | ["reginit", n, d] => ({ st with reg := st.reg.register (unhex n) (parseDecor d) }, "ok")
  | ["heavy", d] => ({ st with heavy := parseDecor d }, "ok")
  | ["named", n] => (st, showDecor (st.reg.named (unhex n)))
  | ["names"] => (st, joinC (st.reg.names.map hexOf))
  | ["liststyles"] => (st, joinC ((listStyles st.reg).map hexOf))
  | ["autowrap", t, style] =>
    let core := idOf t
    -- the model's `Format.wrapper` of the model's `resolveStyle`: the very object of c19_unknown / C19e
    let wr : Wrapper := (resolveStyle st.reg st.heavy (unhex style)).wrapper core
    let kind := wr.kind
    let decor := wr.decor
    ({ st with w := st.w.wrapEffect kind core, wrappers := st.wrappers.push wr },
      s!"W{st.wrappers.size} kind={showKind kind} nodecor={b01 (kind = .text && decor = emptyDecoration)}")
  | ["ecnew", k] =>
    ({ st with ecs := st.ecs.push (if k == "nil" then none else some []) }, s!"E{st.ecs.size}")
  | ["ecadd", e, v] =>
    ({ st with ecs := st.ecs.modify (idOf e) (fun c => (parseErrs v).foldl EC.addError c) }, "ok")
  | ["ecaddlist", e, vs] =>
    ({ st with ecs := st.ecs.modify (idOf e) (fun c => EC.addErrorList c (parseErrs vs)) }, "ok")
  | ["ecerrors", e] =>
    (st, match EC.errors (st.ecs.getD (idOf e) none) with
      | none => "nil"
      | some es => showNats es)
  | [] => (st, "")
  | _ => (st, "bad-op")

/-- the harness sends `renderbuf W kind` unrewritten only when the Go call panicked; it is a `render` -/
def normLine (l : String) : String :=
  match l.splitOn " " with
  | ["renderbuf", wv, _] => "render " ++ wv
  | _ => l

partial def loop (hin : IO.FS.Stream) (hout : IO.FS.Stream) (st : St) : IO Unit := do
  let line ← hin.getLine
  if line.isEmpty then return ()
  let l := (line.dropEndWhile (fun c => c == '\n' || c == '\r')).toString
  let (st', out) := step st (normLine l)
  -- a Go panic unwinds the whole call: the harness reports the bare word
  let out := if (out.splitOn "res=PANIC").length > 1 || (out.splitOn "res2=PANIC").length > 1 then "PANIC" else out
  hout.putStrLn out
  loop hin hout st'

def main : IO Unit := do
  let hin ← IO.getStdin
  let hout ← IO.getStdout
  loop hin hout {}
